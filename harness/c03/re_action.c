/* C03.H4 - what yr_re_exec does with the verdict of an instruction (`switch (action)`, cut out of the function per run):
 *   KILL       the fiber leaves the list (back to the pool); the fiber after it is examined next
 *   KILL_TAIL  the fiber and every LOWER-priority fiber leave the list; nothing more is examined in this round
 *   CONTINUE   (zero-width instruction succeeded) the fiber is synced and examined AGAIN for the same input character
 *   NONE       (a character was consumed) the fiber is synced for the next round and the fiber that FOLLOWED it before the
 *              sync is examined next - fibers created by the sync wait for the next character
 * List [A, F, B]; F's next instruction is a matching one (VF_NEXT_ANY) or a split (VF_NEXT_SPLIT_A: the sync inserts a new fiber
 * N right after F).  Higher-priority fiber A and its state are never touched.
 */
#define VF_WITH_RE 1
#define VF_REAL_RE_EXEC 1
#include "common/scan_env.h"
#include "mem.c"
#include "strutils.c"
#include "re.c"
#include "re_step.h"

static uint8_t code[32];
static void fill_code(void) { for (int i = 0; i < 32; i++) code[i] = RE_OPCODE_ANY; }

int main(void)
{
  static RE_FIBER P[3], A, F, B;
  static YR_SCAN_CONTEXT ctx;
  RE_FIBER_LIST l;
  fill_code();
#ifdef VF_NEXT_SPLIT_A
  code[8] = RE_OPCODE_SPLIT_A;
  code[9] = 1;
  int16_t off = 10; /* -> code[18] */
  memcpy(code + 10, &off, 2);
#endif
  for (int i = 0; i < 3; i++) { P[i].prev = i ? &P[i - 1] : NULL; P[i].next = i < 2 ? &P[i + 1] : NULL; }
  ctx.re_fiber_pool.fibers.head = &P[0];
  ctx.re_fiber_pool.fibers.tail = &P[2];
  ctx.re_fiber_pool.fiber_count = 6;
  A.ip = code + 1; A.sp = -1; A.rc = -1; A.prev = NULL; A.next = &F;
  B.ip = code + 2; B.sp = -1; B.rc = -1; B.prev = &F; B.next = NULL;
  F.ip = code + 8; F.prev = &A; F.next = &B;
  F.sp = (int32_t) vf_range(0, 3) - 1;
  F.rc = -1;
  for (int j = 0; j < RE_MAX_STACK; j++) F.stack[j] = (uint16_t) vf_range(0, 3);
  l.head = &A;
  l.tail = &B;
  RE_FIBER* cur = &F;
  int rc = vf_re_action(&ctx, &l, &cur, VF_ACTION);
  VF_ASSERT(rc == ERROR_SUCCESS, "no error while the pool has fibers");
  VF_ASSERT(l.head == &A && A.prev == NULL && A.ip == code + 1, "the higher-priority fiber is untouched");
  int np = 0;
  for (RE_FIBER* f = ctx.re_fiber_pool.fibers.head; f != NULL && np < 7; f = f->next) np++;
  if (VF_ACTION == ACTION_KILL)
  {
    VF_ASSERT(cur == &B, "after a kill the following fiber is examined");
    VF_ASSERT(A.next == &B && B.prev == &A && l.tail == &B && B.next == NULL, "the killed fiber is unlinked");
    VF_ASSERT(np == 4, "the killed fiber is back in the pool");
  }
  else if (VF_ACTION == ACTION_KILL_TAIL)
  {
    VF_ASSERT(cur == NULL, "after a match nothing else is examined in this round");
    VF_ASSERT(A.next == NULL && l.tail == &A, "the matching fiber and every lower-priority fiber leave the list");
    VF_ASSERT(np == 5, "both fibers are back in the pool");
  }
  else
  {
#ifdef VF_NEXT_SPLIT_A
    RE_FIBER* n = F.next;
    VF_ASSERT(n != &B && n != NULL && n->next == &B && B.prev == n && n->prev == &F, "the split inserts the new fiber right after the synced one");
    VF_ASSERT(F.ip == code + 12 && n->ip == code + 18 && n->sp == F.sp && n->rc == F.rc, "SPLIT_A: the fiber goes on, the clone takes the branch");
    VF_ASSERT(np == 2, "one fiber taken from the pool");
#else
    VF_ASSERT(F.next == &B && F.ip == code + 8, "nothing to sync at a matching instruction");
    VF_ASSERT(np == 3, "pool unchanged");
#endif
    if (VF_ACTION == ACTION_CONTINUE)
      VF_ASSERT(cur == &F, "after a zero-width instruction the SAME fiber is examined again for the same character");
    else
      VF_ASSERT(cur == &B, "after consuming a character the fiber that followed BEFORE the sync is examined next (new fibers wait for the next character)");
  }
  VF_WITNESS("end");
  return 0;
}
