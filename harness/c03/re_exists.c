/* C03.H3 - fiber de-duplication (_yr_re_fiber_exists, re.c).
 * yr_re_exec kills a fiber when an EARLIER fiber of the list (higher priority) is in the same state.  Two fibers are in the
 * same state iff they stand at the same instruction with the same repeat counter, the same stack depth and the same live
 * stack slots stack[0..sp] (the slots hold the iteration counters of the enclosing counted repeats - dropping one merges
 * fibers that still have a different number of iterations to go).
 * Symbolic: a list of 3 fibers with arbitrary ip (one of 3 instructions), sp in -1..2, rc, stack contents; the target is the
 * second or third fiber, `last` is its predecessor (as yr_re_exec calls it) or any earlier fiber / NULL.
 */
#define VF_WITH_RE 1
#define VF_REAL_RE_EXEC 1
#include "common/scan_env.h"
#include "mem.c"
#include "strutils.c"
#include "re.c"

static int same_state(const RE_FIBER* a, const RE_FIBER* b)
{
  if (a->ip != b->ip || a->sp != b->sp || a->rc != b->rc) return 0;
  for (int i = 0; i < RE_MAX_STACK; i++)
    if (i <= a->sp && a->stack[i] != b->stack[i]) return 0;
  return 1;
}

int main(void)
{
  static uint8_t code[4];
  static RE_FIBER f[3];
  for (int i = 0; i < 3; i++)
  {
    f[i].ip = code + vf_range(0, 2);
    f[i].sp = (int32_t) vf_range(0, 3) - 1;
    f[i].rc = (int32_t) vf_range(0, 3) - 1;
    for (int j = 0; j < RE_MAX_STACK; j++) f[i].stack[j] = vf_u16();
    f[i].prev = i > 0 ? &f[i - 1] : NULL;
    f[i].next = i < 2 ? &f[i + 1] : NULL;
  }
  RE_FIBER_LIST l;
  l.head = &f[0];
  l.tail = &f[2];
  unsigned t = vf_range(1, 2);    /* target fiber */
  unsigned last = vf_range(0, 3); /* 3: NULL */
  VF_ASSUME(last == 3 || last < t);
  int r = _yr_re_fiber_exists(&l, &f[t], last == 3 ? NULL : &f[last]);
  int expect = 0;
  for (unsigned i = 0; i < 3; i++)
    if (last != 3 && i <= last && same_state(&f[i], &f[t])) expect = 1;
  VF_ASSERT((r != 0) == expect, "a fiber is reported as duplicate exactly when an earlier fiber (up to `last`) has the same ip, sp, rc and live stack slots");
  VF_WITNESS("end");
  return 0;
}
