/* C03.H2 - control instructions of the regex VM: _yr_re_fiber_sync (re.c) on a fiber that stands at ONE control instruction
 * (VF_OP), from an arbitrary fiber state, with optional neighbour fibers before and after it in the list.
 *
 * Program: 32 bytes, every byte RE_OPCODE_ANY (a matching instruction: sync stops there) except the control instruction at
 * offset 8 with symbolic arguments (ids, min/max); split / jump / repeat offsets are enumerated per harness (VF_TGT: backwards,
 * forwards, and the instruction itself for splits - the empty-loop case `(a*)*`).
 *
 * Reference (regex semantics of the instruction; the ORDER of the successors in the list is the match priority):
 *   SPLIT_A        -> [next, target]          SPLIT_B -> [target, next]       (a split id already executed in this sync dies)
 *   JUMP           -> [target]
 *   REPEAT_START   -> enter the body with a new iteration counter 0 ; if min == 0 also skip to `offset`;
 *                     greedy: [enter, skip], lazy: [skip, enter]
 *   REPEAT_END     -> c = iterations completed (counter + 1): loop again iff c < max, leave iff c >= min;
 *                     both possible: greedy [again, leave], lazy [leave, again]; leaving pops the counter
 *   REPEAT_ANY     -> r = characters taken so far (rc, -1 = just arrived = 0): take another iff r < max (rc = r + 1, same ip),
 *                     leave iff r >= min (next instruction, rc = -1); both: greedy [take, leave], lazy [leave, take]
 * Successors inherit the fiber's repeat counter and live stack slots; neighbours keep their place and state; fibers come from
 * / go back to the pool (pool + list always hold the same 5 fibers).
 */
#define VF_WITH_RE 1
#define VF_REAL_RE_EXEC 1
#include "common/scan_env.h"
#include "mem.c"
#include "strutils.c"
#include "re.c"

#define AT 8
typedef struct { int ip; int sp; int rc; uint16_t st[RE_MAX_STACK]; } EXP;

static uint8_t code[32];
static void fill_code(void) { for (int i = 0; i < 32; i++) code[i] = RE_OPCODE_ANY; }

static int state_is(const RE_FIBER* f, const EXP* e)
{
  if (f->ip != code + e->ip || f->sp != e->sp || f->rc != e->rc) return 0;
  for (int i = 0; i < RE_MAX_STACK; i++)
    if (i <= e->sp && f->stack[i] != e->st[i]) return 0;
  return 1;
}

int main(void)
{
  static RE_FIBER P[3], A, F, B;
  RE_FIBER_POOL pool;
  RE_FIBER_LIST l;
  fill_code();
  code[AT] = VF_OP;
  /* pool of 3 free fibers (a scanner that has run before) */
  for (int i = 0; i < 3; i++) { P[i].prev = i ? &P[i - 1] : NULL; P[i].next = i < 2 ? &P[i + 1] : NULL; }
  pool.fibers.head = &P[0];
  pool.fibers.tail = &P[2];
  pool.fiber_count = 5;

  /* neighbours are compile-time (VF_NEIGH): a symbolic list shape makes the loop condition of _yr_re_fiber_sync symbolic (no verdict in 300 s) */
  int has_a = VF_NEIGH & 1, has_b = (VF_NEIGH >> 1) & 1;
  F.ip = code + AT;
#ifdef VF_SP
  F.sp = VF_SP; /* enumerated: a symbolic stack depth does not finish for the repeat instructions */
#else
  F.sp = (int32_t) vf_range(0, 3) - 1; /* -1..2 */
#endif
  F.rc = (int32_t) vf_range(0, 4) - 1; /* -1..3 */
  for (int j = 0; j < RE_MAX_STACK; j++) F.stack[j] = (uint16_t) vf_range(0, 3);
  A.ip = code + 1; A.sp = -1; A.rc = -1;
  B.ip = code + 2; B.sp = -1; B.rc = -1;
  F.prev = has_a ? &A : NULL;
  F.next = has_b ? &B : NULL;
  A.prev = NULL; A.next = &F;
  B.prev = &F; B.next = NULL;
  l.head = has_a ? &A : &F;
  l.tail = has_b ? &B : &F;

  EXP e[2];
  int ne = 0;
  EXP base;
  base.ip = AT; base.sp = F.sp; base.rc = F.rc;
  for (int j = 0; j < RE_MAX_STACK; j++) base.st[j] = F.stack[j];

  int len;
#if defined(VF_OP_SPLIT_A) || defined(VF_OP_SPLIT_B)
  len = 4;
  uint8_t id = vf_u8();
  VF_ASSUME(id < RE_MAX_SPLIT_ID);
  int tgt = VF_TGT; /* concrete per harness: a symbolic target makes the instruction pointer symbolic (DESIGN P7) */
  int16_t off = (int16_t) (tgt - AT);
  code[AT + 1] = id;
  memcpy(code + AT + 2, &off, 2);
  EXP nx = base, tg = base;
  nx.ip = AT + len;
  tg.ip = tgt;
  if (tgt == AT) { e[ne++] = nx; } /* the branch that re-enters the same split in the same step dies (no progress) */
#ifdef VF_OP_SPLIT_A
  else { e[ne++] = nx; e[ne++] = tg; }
#else
  else { e[ne++] = tg; e[ne++] = nx; }
#endif
#elif defined(VF_OP_JUMP)
  len = 3;
  int tgt = VF_TGT;
  int16_t off = (int16_t) (tgt - AT);
  memcpy(code + AT + 1, &off, 2);
  EXP tg = base;
  tg.ip = tgt;
  e[ne++] = tg;
#elif defined(VF_OP_REPEAT_START_GREEDY) || defined(VF_OP_REPEAT_START_UNGREEDY) || defined(VF_OP_REPEAT_END_GREEDY) || defined(VF_OP_REPEAT_END_UNGREEDY)
  len = 1 + sizeof(RE_REPEAT_ARGS);
  RE_REPEAT_ARGS ra;
  ra.min = (uint16_t) vf_range(0, 3);
  ra.max = (uint16_t) vf_range(1, 4);
  VF_ASSUME(ra.min <= ra.max);
  int tgt = VF_TGT;
  ra.offset = tgt - AT;
  memcpy(code + AT + 1, &ra, sizeof(ra));
#if defined(VF_OP_REPEAT_START_GREEDY) || defined(VF_OP_REPEAT_START_UNGREEDY)
  VF_ASSUME(F.sp <= RE_MAX_STACK - 2); /* nesting depth is limited by the compiler (RE_MAX_STACK) */
  EXP enter = base, skip = base;
  enter.ip = AT + len; enter.sp = F.sp + 1; enter.st[enter.sp] = 0;
  skip.ip = tgt;
  if (ra.min == 0)
  {
#ifdef VF_OP_REPEAT_START_GREEDY
    e[ne++] = enter; e[ne++] = skip;
#else
    e[ne++] = skip; e[ne++] = enter;
#endif
  }
  else e[ne++] = enter;
#else
  VF_ASSUME(F.sp >= 0);
  int c = F.stack[F.sp] + 1;
  EXP again = base, leave = base;
  again.ip = tgt; again.st[again.sp] = (uint16_t) c;
  leave.ip = AT + len; leave.sp = F.sp - 1;
  int can_again = c < ra.max, can_leave = c >= ra.min;
  if (can_again && can_leave)
  {
#ifdef VF_OP_REPEAT_END_GREEDY
    e[ne++] = again; e[ne++] = leave;
#else
    e[ne++] = leave; e[ne++] = again;
#endif
  }
  else if (can_again) e[ne++] = again;
  else e[ne++] = leave;
#endif
#else /* REPEAT_ANY_GREEDY / REPEAT_ANY_UNGREEDY */
  len = 1 + sizeof(RE_REPEAT_ANY_ARGS);
  RE_REPEAT_ANY_ARGS rany;
  rany.min = (uint16_t) vf_range(0, 3);
  rany.max = (uint16_t) vf_range(0, 4);
  VF_ASSUME(rany.min <= rany.max);
  memcpy(code + AT + 1, &rany, sizeof(rany));
  int r = F.rc == -1 ? 0 : F.rc;
  VF_ASSUME(r <= rany.max);
  EXP take = base, leave = base;
  take.rc = r + 1;
  leave.ip = AT + len; leave.rc = -1;
  int can_take = r < rany.max, can_leave = r >= rany.min;
  if (can_take && can_leave)
  {
#ifdef VF_OP_REPEAT_ANY_GREEDY
    e[ne++] = take; e[ne++] = leave;
#else
    e[ne++] = leave; e[ne++] = take;
#endif
  }
  else if (can_take) e[ne++] = take;
  else e[ne++] = leave;
#endif

  int rc = _yr_re_fiber_sync(&l, &pool, &F);
  VF_ASSERT(rc == ERROR_SUCCESS, "sync succeeds while the pool has fibers");

  /* walk the list */
  RE_FIBER* seq[6];
  int n = 0;
  RE_FIBER* prev = NULL;
  for (RE_FIBER* f = l.head; f != NULL; f = f->next)
  {
    VF_ASSERT(n < 5, "the list stays finite");
    if (n >= 5) break;
    VF_ASSERT(f->prev == prev, "doubly linked list is consistent");
    seq[n++] = f;
    prev = f;
  }
  VF_ASSERT(l.tail == prev, "tail is the last fiber");
  VF_ASSERT(n == has_a + ne + has_b, "exactly the successors the instruction defines replace the fiber");
  if (n == has_a + ne + has_b)
  {
    int k = 0;
    if (has_a) { VF_ASSERT(seq[0] == &A && A.ip == code + 1 && A.sp == -1 && A.rc == -1, "the fiber before keeps its place and state"); k = 1; }
    for (int i = 0; i < 2; i++)
      if (i < ne) VF_ASSERT(state_is(seq[k + i], &e[i]), "successor i (in priority order) is at the right instruction with the inherited counters");
    if (has_b) VF_ASSERT(seq[n - 1] == &B && B.ip == code + 2 && B.sp == -1 && B.rc == -1, "the fiber after keeps its place and state");
  }
  /* pool accounting */
  int np = 0;
  for (RE_FIBER* f = pool.fibers.head; f != NULL; f = f->next)
  {
    VF_ASSERT(np < 5, "the pool stays finite");
    if (np >= 5) break;
    np++;
  }
  VF_ASSERT(np + n == 3 + 1 + has_a + has_b, "every fiber is either in the list or in the pool");
  VF_WITNESS("end");
  return 0;
}
