/* C03.H1 - ONE instruction of the regex VM, as yr_re_exec (re.c) dispatches it, from an arbitrary state of its
 * matching loop.  The opcode switch and the prologue are cut out of yr_re_exec by vf/props/c03.py on every run
 * (re_step.h); everything they call (_yr_re_is_char_in_class, _yr_re_is_word_char, fiber list functions) is the real re.c.
 *
 * State (symbolic): a data window buf[VF_T]; the match start p inside it (input_data = buf + p, forwards size VF_T - p,
 * backwards size p); flags wide / backwards / nocase / dotall / exhaustive / scan; the number k of characters already
 * consumed, under the loop invariant of yr_re_exec: bytes_matched = k * character_size <= max_bytes_matched and
 * input = start + k * step.  The instruction's arguments (literal, mask/value, class bitmap + negation) are symbolic.
 *
 * Reference (regex semantics of a single instruction, written on absolute positions in the window):
 *   consuming opcodes   - need one whole character inside the per-match window (wide: a byte followed by 0x00),
 *                         advance iff the byte satisfies the predicate, never read outside the window;
 *   \b \B               - compare the word-ness of the characters on both sides of the current position, characters
 *                         outside the data count as non-word;
 *   ^ $                 - hold exactly at absolute position 0 / at the end of the data;
 *   MATCH               - reports the number of bytes consumed; exhaustive mode calls the callback with the match start.
 */
#define VF_WITH_RE 1
#define VF_REAL_RE_EXEC 1
#include "common/scan_env.h"
#include "mem.c"
#include "strutils.c"
#include "re.c"
#include "re_step.h"
#ifndef VF_T
#define VF_T 6
#endif

static int cb_calls, cb_len, cb_flags, cb_ret;
static const uint8_t* cb_data;
static int vf_cb(const uint8_t* match, int match_length, int flags, void* args)
{
  cb_calls++;
  cb_data = match;
  cb_len = match_length;
  cb_flags = flags;
  return cb_ret;
}

/* The data window is buf[0..VF_T); it sits inside a larger object with 2 symbolic margin bytes on each side, because
   yr_re_exec's convention lets `input` stand one character before / after the data (formed, compared, not read) and CBMC
   stops deciding later properties once such a pointer has been formed.  The margins are unconstrained: any influence of a
   byte outside the window on the outcome falsifies one of the assertions below for some margin value. */
static uint8_t big[VF_T + 4];
#define buf (big + 2)

static int ref_isword_byte(uint8_t c)
{
  return (c >= '0' && c <= '9') || (c >= 'a' && c <= 'z') || (c >= 'A' && c <= 'Z') || c == '_';
}
/* word-ness of the character occupying [pos, pos+cs) ; outside the data: not a word character */
static int ref_word_at(int pos, int cs)
{
  if (pos < 0 || pos + cs > VF_T) return 0;
  int w = ref_isword_byte(buf[pos]);
  if (cs == 2) w = w && buf[pos + 1] == 0;
  return w;
}
static uint8_t ref_lower(uint8_t c) { return (c >= 'A' && c <= 'Z') ? c + 32 : c; }
static uint8_t ref_alter(uint8_t c)
{
  if (c >= 'A' && c <= 'Z') return c + 32;
  if (c >= 'a' && c <= 'z') return c - 32;
  return c;
}

#define OP_IS(x) (VF_OP == RE_OPCODE_##x)

int main(void)
{
  static uint8_t code[40];
  static RE_FIBER F;
  static YR_SCAN_CONTEXT ctx;
  vf_init_tables();
  vf_fill(big, VF_T + 4);
  unsigned p = vf_range(0, VF_T);
  int wide = vf_bool(), backwards = vf_bool(), nocase = vf_bool(), dotall = vf_bool(), exhaustive = vf_bool(), scan = vf_bool();
  int flags = (wide ? RE_FLAGS_WIDE : 0) | (backwards ? RE_FLAGS_BACKWARDS : 0) | (nocase ? RE_FLAGS_NO_CASE : 0) |
              (dotall ? RE_FLAGS_DOT_ALL : 0) | (exhaustive ? RE_FLAGS_EXHAUSTIVE : 0) | (scan ? RE_FLAGS_SCAN : 0);
  const uint8_t* input_data = buf + p;
  size_t fwd = VF_T - p, bwd = p;
  if (backwards) VF_ASSUME(fwd >= 1); /* scan.c runs the backward code from an atom occurrence at input_data */

  /* --- the real prologue of yr_re_exec --- */
  const uint8_t* input0;
  int incr, maxbm, bm0;
  uint8_t cs;
  vf_re_prologue(input_data, fwd, bwd, flags, &input0, &incr, &cs, &maxbm, &bm0);
  int cs_ref = wide ? 2 : 1;
  size_t avail = backwards ? bwd : fwd;
  int max_ref = (int) (avail < YR_RE_SCAN_LIMIT ? avail : YR_RE_SCAN_LIMIT);
  max_ref -= max_ref % cs_ref;
  VF_ASSERT(cs == cs_ref && bm0 == 0, "character size follows the wide flag; nothing matched yet");
  VF_ASSERT(maxbm == max_ref, "the per-match window is the available data in the scan direction, capped by the scan limit, in whole characters");
  VF_ASSERT(incr == (backwards ? -cs_ref : cs_ref), "the input moves one character per round in the scan direction");
  VF_ASSERT(input0 == buf + (backwards ? (int) p - cs_ref : (int) p), "the first character examined is the one at (forwards) / just before (backwards) the match start");

  /* --- an arbitrary state of the loop --- */
  unsigned k = vf_range(0, VF_T);
  int bm = (int) k * cs_ref;
  VF_ASSUME(bm <= maxbm);
  const uint8_t* input = input0 + (int) k * incr;
  int pos = backwards ? (int) p - cs_ref - bm : (int) p + bm; /* absolute position of the character to consume */
  int edge = backwards ? (int) p - bm : (int) p + bm;         /* absolute position of the boundary we stand on */

  code[0] = VF_OP;
  vf_fill(code + 1, 35);
  F.ip = code;
  F.sp = -1;
  F.rc = -1;
  F.prev = F.next = NULL;
  RE_FIBER_LIST fl;
  fl.head = fl.tail = &F;
  cb_ret = vf_bool() ? ERROR_SUCCESS : ERROR_TOO_MANY_MATCHES;
  int matches = -5, action = -1;
  int rc = vf_re_step(&ctx, &fl, &F, input, input_data, fwd, bwd, flags, vf_cb, NULL, &matches, cs, incr, bm, maxbm, &action);

  if (OP_IS(MATCH))
  {
    VF_ASSERT(matches == bm, "MATCH reports the number of bytes consumed");
    if (exhaustive)
    {
      VF_ASSERT(cb_calls == 1 && cb_len == bm && cb_flags == flags, "exhaustive mode reports every match through the callback, with its length");
      VF_ASSERT(cb_data == (backwards ? buf + ((int) p - bm) : input_data), "the callback receives the start of the matched bytes");
      if (cb_ret != ERROR_SUCCESS)
      {
        VF_ASSERT(rc == cb_ret, "a callback error is returned");
        VF_ASSERT(fl.head == NULL && ctx.re_fiber_pool.fibers.head == &F, "all fibers go back to the pool when the callback fails");
      }
      else
        VF_ASSERT(rc == ERROR_SUCCESS && action == ACTION_KILL, "after reporting, only this fiber ends (exhaustive)");
    }
    else
    {
      VF_ASSERT(rc == ERROR_SUCCESS && cb_calls == 0 && action == ACTION_KILL_TAIL, "non-exhaustive: the first (highest priority) match ends this and all lower-priority fibers");
    }
    goto done;
  }
  VF_ASSERT(rc == ERROR_SUCCESS, "a matching instruction cannot fail");
  VF_ASSERT(cb_calls == 0 && matches == -5, "only MATCH reports");

  if (OP_IS(WORD_BOUNDARY) || OP_IS(NON_WORD_BOUNDARY))
  {
    int before = backwards ? ref_word_at(pos + cs_ref, cs_ref) : ref_word_at(pos - cs_ref, cs_ref);
    int here = ref_word_at(pos, cs_ref);
    int m = before != here;
    if (OP_IS(NON_WORD_BOUNDARY)) m = !m;
    VF_ASSERT(action == (m ? ACTION_CONTINUE : ACTION_KILL), "\\b holds exactly between a word and a non-word character (data edges count as non-word); \\B is its negation");
    VF_ASSERT(F.ip == code + 1, "zero-width instruction is one byte long");
  }
  else if (OP_IS(MATCH_AT_START))
  {
    VF_ASSERT(action == (edge == 0 ? ACTION_CONTINUE : ACTION_KILL), "^ holds exactly at the first byte of the data");
    VF_ASSERT(F.ip == code + 1, "zero-width instruction is one byte long");
  }
  else if (OP_IS(MATCH_AT_END))
  {
    VF_ASSERT(action == (edge == VF_T ? ACTION_CONTINUE : ACTION_KILL), "$ holds exactly after the last byte of the data");
    VF_ASSERT(F.ip == code + 1, "zero-width instruction is one byte long");
  }
  else
  {
    /* consuming instruction */
    int can = bm < maxbm;
    if (can && cs_ref == 2 && buf[pos + 1] != 0) can = 0;
    if (!can)
      VF_ASSERT(action == ACTION_KILL, "no whole character left inside the window (or not a wide character): the fiber dies");
    else
    {
      uint8_t c = buf[pos];
      int pred, len = 1;
      if (OP_IS(ANY) || OP_IS(REPEAT_ANY_GREEDY) || OP_IS(REPEAT_ANY_UNGREEDY)) { pred = dotall || c != '\n'; len = OP_IS(ANY) ? 1 : 0; }
      else if (OP_IS(LITERAL)) { pred = nocase ? ref_lower(c) == ref_lower(code[1]) : c == code[1]; len = 2; }
      else if (OP_IS(NOT_LITERAL)) { pred = c != code[1]; len = 2; }
      else if (OP_IS(MASKED_LITERAL)) { pred = (c & code[2]) == code[1]; len = 3; }
      else if (OP_IS(MASKED_NOT_LITERAL)) { pred = (c & code[2]) != code[1]; len = 3; }
      else if (OP_IS(CLASS))
      {
        const uint8_t* bm_ = code + 2;
        uint8_t a = ref_alter(c);
        pred = (bm_[c >> 3] >> (c & 7)) & 1;
        if (nocase) pred = pred || ((bm_[a >> 3] >> (a & 7)) & 1);
        if (code[1]) pred = !pred;
        len = 34;
      }
      else if (OP_IS(WORD_CHAR)) pred = ref_isword_byte(c);
      else if (OP_IS(NON_WORD_CHAR)) pred = !ref_isword_byte(c);
      else if (OP_IS(SPACE) || OP_IS(NON_SPACE))
      {
        pred = c == ' ' || c == '\t' || c == '\r' || c == '\n' || c == '\v' || c == '\f';
        if (OP_IS(NON_SPACE)) pred = !pred;
      }
      else if (OP_IS(DIGIT)) pred = c >= '0' && c <= '9';
      else pred = !(c >= '0' && c <= '9'); /* NON_DIGIT */
      VF_ASSERT(action == (pred ? ACTION_NONE : ACTION_KILL), "the fiber survives exactly when the character satisfies the instruction");
      if (pred) VF_ASSERT(F.ip == code + len, "the fiber moves to the next instruction (a repeat-any instruction keeps spinning)");
    }
  }
  VF_ASSERT(fl.head == &F && fl.tail == &F, "a matching instruction does not touch the fiber list itself");
done:
  VF_WITNESS("end");
  return 0;
}
