/* C14.H4 - math module integer functions on the REAL libyara/modules/math/math.c (module glue stubbed):
 *  VF_FUNC=1  min, max (documented as comparing UNSIGNED values), abs, to_number: all 64-bit arguments
 *  VF_FUNC=2  count(byte, offset, length) through get_distribution on a symbolic 2-block layout
 *  VF_FUNC=3  mode(offset, length): the most common byte, lowest value wins a tie
 * Oracle: direct definitions over exactly the addressed bytes (same range rules as the hash walkers).
 */
#include "vf.h"
#include <assert.h>
#include <string.h>
#include <stdlib.h>
#include <yara/modules.h>
#include <yara/mem.h>
static int64_t vf_ret_int;
static int vf_ret_set;
int yr_object_set_integer(int64_t value, YR_OBJECT* object, const char* field, ...) { vf_ret_int = value; vf_ret_set++; return ERROR_SUCCESS; }
int yr_object_set_float(double value, YR_OBJECT* object, const char* field, ...) { vf_ret_set++; return ERROR_SUCCESS; }
int yr_object_set_string(const char* value, size_t len, YR_OBJECT* object, const char* field, ...) { vf_ret_set++; return ERROR_SUCCESS; }
const uint8_t* yr_fetch_block_data(YR_MEMORY_BLOCK* b) { return (const uint8_t*) b->context; }
#include "mem.c"
#define MODULE_NAME math
#include "modules/math/math.c"

#define BS 3
static uint8_t d0[BS], d1[BS];
static YR_MEMORY_BLOCK blk[2];
static int nblk, pos;
static YR_MEMORY_BLOCK* it_deliver(YR_MEMORY_BLOCK_ITERATOR* it) { return pos < nblk ? &blk[pos++] : NULL; }
static YR_MEMORY_BLOCK* it_first(YR_MEMORY_BLOCK_ITERATOR* it) { pos = 0; return it_deliver(it); }

int main(void)
{
  YR_OBJECT ret;
  memset(&ret, 0, sizeof(ret));
  ret.type = OBJECT_TYPE_INTEGER;
  YR_OBJECT_FUNCTION fn;
  memset(&fn, 0, sizeof(fn));
  fn.return_obj = &ret;
  YR_VALUE args[3];
  YR_SCAN_CONTEXT ctx;
  memset(&ctx, 0, sizeof(ctx));
#if VF_FUNC == 1
  uint64_t a = vf_u64(), b = vf_u64();
  args[0].i = (int64_t) a; args[1].i = (int64_t) b;
  int r = min(args, &ctx, &fn);
  VF_ASSERT(r == ERROR_SUCCESS && (uint64_t) vf_ret_int == (a < b ? a : b), "math.min returns the smaller of two unsigned values");
  r = max(args, &ctx, &fn);
  VF_ASSERT(r == ERROR_SUCCESS && (uint64_t) vf_ret_int == (a > b ? a : b), "math.max returns the larger of two unsigned values");
  r = to_number(args, &ctx, &fn);
  VF_ASSERT(r == ERROR_SUCCESS && vf_ret_int == (a != 0), "math.to_number maps a boolean to 0/1");
  VF_ASSUME((int64_t) a != INT64_MIN);
  r = yr_math_abs(args, &ctx, &fn);
  VF_ASSERT(r == ERROR_SUCCESS && vf_ret_int == ((int64_t) a < 0 ? -(int64_t) a : (int64_t) a), "math.abs returns the absolute value");
#else
  vf_fill(d0, BS);
  vf_fill(d1, BS);
  nblk = (int) vf_range(1, 2);
  uint64_t b0 = vf_range(0, 2), s0 = vf_range(1, BS), gap = vf_range(0, 1), s1 = vf_range(1, BS);
  blk[0].base = b0; blk[0].size = s0; blk[0].context = d0;
  blk[1].base = b0 + s0 + gap; blk[1].size = s1; blk[1].context = d1;
  YR_MEMORY_BLOCK_ITERATOR it;
  memset(&it, 0, sizeof(it));
  it.first = it_first;
  it.next = it_deliver;
  ctx.iterator = &it;
  int64_t offset = vf_i64(), length = vf_i64();
  VF_ASSUME(offset > -(1LL << 40) && offset < (1LL << 40) && length > -(1LL << 40) && length < (1LL << 40));
  uint8_t byte = vf_u8();
  /* oracle: the addressed bytes */
  int undef = 0;
  unsigned hist[4] = {0, 0, 0, 0}; /* counts of byte, and of three more probe values for the mode */
  unsigned total = 0, cnt_byte = 0;
  uint8_t sel[2 * BS]; unsigned nsel = 0;
  if (offset < 0 || length < 0) undef = 1;
  else
  {
    int k = -1;
    for (int i = 0; i < 2; i++)
      if (i < nblk && k < 0 && (uint64_t) offset >= blk[i].base && (uint64_t) offset < blk[i].base + blk[i].size) k = i;
    if (k < 0) undef = 1;
    else
    {
      uint64_t o = (uint64_t) offset, rem = (uint64_t) length;
      for (int i = 0; i < 2; i++)
      {
        if (i < k || i >= nblk || undef) continue;
        if (i > k && rem > 0 && blk[i].base != o) { undef = 1; continue; }
        if (i > k && rem == 0) continue;
        const uint8_t* d = (const uint8_t*) blk[i].context;
        for (uint64_t j = 0; j < BS; j++)
        {
          uint64_t a = blk[i].base + j;
          if (j < blk[i].size && a >= o && rem > 0) { if (nsel < 2 * BS) sel[nsel++] = d[j]; o++; rem--; }
        }
      }
    }
  }
  for (unsigned i = 0; i < 2 * BS; i++) if (i < nsel && sel[i] == byte) cnt_byte++;
  int corner = !undef && length == 0 && nblk == 2 && (uint64_t) offset == blk[1].base; /* known finding K2, asserted in H1 */
  VF_ASSUME(!corner);
#if VF_FUNC == 2
  args[0].i = byte; args[1].i = offset; args[2].i = length;
  int r = count_range(args, &ctx, &fn);
  VF_ASSERT(r == ERROR_SUCCESS && vf_ret_set == 1, "the function returns exactly one value");
  VF_ASSERT(undef ? (uint64_t) vf_ret_int == (uint64_t) YR_UNDEFINED : vf_ret_int == (int64_t) cnt_byte,
            "math.count = number of occurrences of the byte in exactly the addressed range");
#else
  args[0].i = offset; args[1].i = length;
  int r = mode_range(args, &ctx, &fn);
  VF_ASSERT(r == ERROR_SUCCESS && vf_ret_set == 1, "the function returns exactly one value");
  if (undef) VF_ASSERT((uint64_t) vf_ret_int == (uint64_t) YR_UNDEFINED, "math.mode is undefined when the range is");
  else
  {
    /* byte is an arbitrary value: nothing occurs more often than the reported mode, and a value that occurs
       as often is not smaller */
    unsigned cm = 0;
    for (unsigned i = 0; i < 2 * BS; i++) if (i < nsel && sel[i] == (uint8_t) vf_ret_int) cm++;
    VF_ASSERT(vf_ret_int >= 0 && vf_ret_int <= 255, "math.mode is a byte value");
    VF_ASSERT(cnt_byte < cm || (cnt_byte == cm && byte >= (uint8_t) vf_ret_int), "math.mode is the most common byte of the range (lowest value on a tie)");
  }
#endif
#endif
  VF_WITNESS("end");
  return 0;
}
