/* C14.H1/H2 - hash module range walkers and checksum arithmetic on the REAL libyara/modules/hash/hash.c
 * (data_checksum32, data_crc32, string_checksum32, string_crc32), with the module glue stubbed:
 *   yr_object_set_integer -> sink recording the returned value;   block iterator -> 2 blocks with symbolic
 *   bases/sizes/gap and symbolic bytes.
 * Symbolic: offset and length over (bounded) int64 incl. negative, bytes, block layout.
 * Oracle: sum / bitwise CRC-32 (IEEE 802.3, reflected, poly 0xEDB88320) of exactly data[offset, min(offset+length, end)),
 *         undefined iff offset<0, length<0, offset outside every block, or the range crosses a gap.
 */
#include "vf.h"
#include <assert.h>
#include <string.h>
#include <stdlib.h>
#include <yara/modules.h>
#include <yara/mem.h>

/* ---- module glue stubs ---- */
static int64_t vf_ret_int;
static int vf_ret_set;
int yr_object_set_integer(int64_t value, YR_OBJECT* object, const char* field, ...)
{
  vf_ret_int = value;
  vf_ret_set++;
  return ERROR_SUCCESS;
}
const uint8_t* yr_fetch_block_data(YR_MEMORY_BLOCK* b) { return (const uint8_t*) b->context; }
#define MODULE_NAME hash
#include "modules/hash/hash.c"

#define BS 3
static uint8_t d0[BS], d1[BS];
static YR_MEMORY_BLOCK blk[2];
static int nblk, pos;
static YR_MEMORY_BLOCK* it_deliver(YR_MEMORY_BLOCK_ITERATOR* it) { return pos < nblk ? &blk[pos++] : NULL; }
static YR_MEMORY_BLOCK* it_first(YR_MEMORY_BLOCK_ITERATOR* it) { pos = 0; return it_deliver(it); }

static uint32_t ref_crc32_byte(uint32_t crc, uint8_t b)
{
  crc ^= b;
  for (int k = 0; k < 8; k++) crc = (crc >> 1) ^ (0xEDB88320u & (0u - (crc & 1u)));
  return crc;
}

int main(void)
{
  vf_fill(d0, BS);
  vf_fill(d1, BS);
  nblk = (int) vf_range(1, 2);
  uint64_t b0 = vf_range(0, 3), s0 = vf_range(1, BS), gap = vf_range(0, 2), s1 = vf_range(1, BS);
  blk[0].base = b0; blk[0].size = s0; blk[0].context = d0;
  blk[1].base = b0 + s0 + gap; blk[1].size = s1; blk[1].context = d1;
  YR_MEMORY_BLOCK_ITERATOR it;
  memset(&it, 0, sizeof(it));
  it.first = it_first;
  it.next = it_deliver;
  YR_SCAN_CONTEXT ctx;
  memset(&ctx, 0, sizeof(ctx));
  ctx.iterator = &it;
  YR_OBJECT ret;
  memset(&ret, 0, sizeof(ret));
  ret.type = OBJECT_TYPE_INTEGER;
  YR_OBJECT_FUNCTION fn;
  memset(&fn, 0, sizeof(fn));
  fn.return_obj = &ret;
  YR_VALUE args[2];
  int64_t offset = vf_i64(), length = vf_i64();
  /* stated bound: |offset|, |length| < 2^40 (the walkers compute offset + length in int64; see DESIGN section 6, U1) */
  VF_ASSUME(offset > -(1LL << 40) && offset < (1LL << 40) && length > -(1LL << 40) && length < (1LL << 40));
  args[0].i = offset;
  args[1].i = length;

  /* ---- oracle ---- */
  int undef = 0;
  uint32_t sum = 0, crc = 0xFFFFFFFFu;
  if (offset < 0 || length < 0) undef = 1;
  else
  {
    int k = -1;
    for (int i = 0; i < 2; i++)
      if (i < nblk && k < 0 && (uint64_t) offset >= blk[i].base && (uint64_t) offset < blk[i].base + blk[i].size) k = i;
    if (k < 0) undef = 1;
    else
    {
      uint64_t o = (uint64_t) offset, rem = (uint64_t) length;
      for (int i = 0; i < 2; i++)
      {
        if (i < k || i >= nblk || undef) continue;
        if (i > k && rem > 0 && blk[i].base != o) { undef = 1; continue; } /* gap inside the requested range */
        if (i > k && rem == 0) continue;
        const uint8_t* d = (const uint8_t*) blk[i].context;
        for (uint64_t j = 0; j < BS; j++)
        {
          uint64_t a = blk[i].base + j;
          if (j < blk[i].size && a >= o && rem > 0) { sum += d[j]; crc = ref_crc32_byte(crc, d[j]); o++; rem--; }
        }
      }
    }
  }
  int r;
  /* the corner listed in known_findings.txt is asserted separately so that any OTHER deviation is still a violation */
  int corner = !undef && length == 0 && nblk == 2 && (uint64_t) offset == blk[1].base;
#define MAIN_OR_CORNER(cond, text) \
  do { if (corner) VF_ASSERT(cond, "KF-zero-length-at-later-block: " text); else VF_ASSERT(cond, text); } while (0)
#if VF_FUNC == 1
  r = data_checksum32(args, &ctx, &fn);
  VF_ASSERT(r == ERROR_SUCCESS && vf_ret_set == 1, "the function returns exactly one value");
  MAIN_OR_CORNER(undef ? (uint64_t) vf_ret_int == (uint64_t) YR_UNDEFINED : vf_ret_int == (int64_t) sum,
            "checksum32 = sum of exactly the addressed bytes clipped at the end of the data; undefined iff the offset is outside or the range crosses a gap");
#else
  r = data_crc32(args, &ctx, &fn);
  VF_ASSERT(r == ERROR_SUCCESS && vf_ret_set == 1, "the function returns exactly one value");
  MAIN_OR_CORNER(undef ? (uint64_t) vf_ret_int == (uint64_t) YR_UNDEFINED : vf_ret_int == (int64_t) (crc ^ 0xFFFFFFFFu),
            "crc32 = standard CRC-32 of exactly the addressed bytes clipped at the end of the data; undefined iff the offset is outside or the range crosses a gap");
#endif
  VF_WITNESS("end");
  return 0;
}
