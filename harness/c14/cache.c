/* C14.H3 - the per-scan digest cache of the hash module: "also when the same range is requested repeatedly or
 * through several algorithms in one scan".  REAL libyara/modules/hash/hash.c (data_sha1 / data_md5 with
 * get_from_cache / add_to_cache) and REAL hash.c (yr_hash_table_*_raw_key).  The digest primitive is FFI (OpenSSL):
 * it is replaced by a stand-in that is injective on the short inputs used here (length + first 4 bytes), so that a
 * stale cache entry shows up as a different digest string.
 * 2-safety: the digest reported for range 2 after range 1 was requested in the same scan equals the digest reported
 * for range 2 in a scan where it is requested alone.  Ranges and data symbolic.
 */
#include "vf.h"
#include <assert.h>
#include <string.h>
#include <stdlib.h>
#include <stdio.h>
#include <yara/modules.h>
#include <yara/mem.h>
#include <yara/hash.h>
#include <openssl/evp.h>
#include "mem.c"
#include "hash.c"

/* ---- OpenSSL stand-in ---- */
struct vf_md { unsigned len; uint8_t b[4]; int kind; };
static struct vf_md vf_md_state;
static int vf_cur_kind;
EVP_MD_CTX* EVP_MD_CTX_new(void) { vf_md_state.len = 0; memset(vf_md_state.b, 0, 4); return (EVP_MD_CTX*) &vf_md_state; }
void EVP_MD_CTX_free(EVP_MD_CTX* c) {}
const EVP_MD* EVP_md5(void) { vf_cur_kind = 1; return NULL; }
const EVP_MD* EVP_sha1(void) { vf_cur_kind = 2; return NULL; }
const EVP_MD* EVP_sha256(void) { vf_cur_kind = 3; return NULL; }
int EVP_DigestInit(EVP_MD_CTX* c, const EVP_MD* t) { vf_md_state.kind = vf_cur_kind; return 1; }
int EVP_DigestUpdate(EVP_MD_CTX* c, const void* d, size_t n)
{
  const uint8_t* p = d;
  for (size_t i = 0; i < 4; i++)
  {
    if (i >= n) break;
    if (vf_md_state.len + i < 4) vf_md_state.b[vf_md_state.len + i] = p[i];
  }
  vf_md_state.len += (unsigned) n;
  return 1;
}
int EVP_DigestFinal(EVP_MD_CTX* c, unsigned char* md, unsigned int* s)
{
  memset(md, 0, *s);
  md[0] = (unsigned char) vf_md_state.len;
  md[1] = (unsigned char) vf_md_state.kind;
  memcpy(md + 2, vf_md_state.b, 4);
  return 1;
}
/* formatting contract: sprintf(buf, "%02x", v) writes two lower-case hex digits and a NUL */
static int vf_hex2(char* out, unsigned v)
{
  static const char h[] = "0123456789abcdef";
  out[0] = h[(v >> 4) & 15]; out[1] = h[v & 15]; out[2] = 0;
  return 2;
}
#define sprintf(buf, fmt, v) vf_hex2((buf), (unsigned) (v))

/* ---- module glue ---- */
static char vf_ret[16];
static int vf_ret_undef, vf_ret_set;
int yr_object_set_string(const char* value, size_t len, YR_OBJECT* object, const char* field, ...)
{
  vf_ret_set++;
  vf_ret_undef = value == NULL;
  memset(vf_ret, 0, sizeof(vf_ret));
  if (value != NULL) memcpy(vf_ret, value, 12); /* len(1) kind(1) data(4) bytes -> 12 hex characters carry everything */
  return ERROR_SUCCESS;
}
int yr_object_set_integer(int64_t value, YR_OBJECT* object, const char* field, ...) { return ERROR_SUCCESS; }
static YR_OBJECT module_obj;
YR_OBJECT* yr_object_get_root(YR_OBJECT* o) { return &module_obj; }
const uint8_t* yr_fetch_block_data(YR_MEMORY_BLOCK* b) { return (const uint8_t*) b->context; }
#define MODULE_NAME hash
#include "modules/hash/hash.c"

#define BS 4
static uint8_t d0[BS];
static YR_MEMORY_BLOCK blk;
static int pos;
static YR_MEMORY_BLOCK* it_next(YR_MEMORY_BLOCK_ITERATOR* it) { return pos++ == 0 ? &blk : NULL; }
static YR_MEMORY_BLOCK* it_first(YR_MEMORY_BLOCK_ITERATOR* it) { pos = 0; return it_next(it); }

static YR_SCAN_CONTEXT ctx;
static YR_OBJECT ret;
static YR_OBJECT_FUNCTION fn;
static int call(int algo, int64_t o, int64_t l)
{
  YR_VALUE args[2];
  args[0].i = o; args[1].i = l;
  return algo == 0 ? data_sha1(args, &ctx, &fn) : data_md5(args, &ctx, &fn);
}

int main(void)
{
  vf_fill(d0, BS);
  blk.base = 0; blk.size = vf_range(1, BS); blk.context = d0;
  static YR_MEMORY_BLOCK_ITERATOR it;
  it.first = it_first; it.next = it_next;
  ctx.iterator = &it;
  ret.type = OBJECT_TYPE_STRING;
  fn.return_obj = &ret;
  int64_t o1 = (int64_t) vf_range(0, 5), l1 = (int64_t) vf_range(0, 5), o2 = (int64_t) vf_range(0, 5), l2 = (int64_t) vf_range(0, 5);
  int a1 = (int) vf_range(0, 1), a2 = (int) vf_range(0, 1);
  YR_HASH_TABLE* t = NULL;
  /* scan A: range 2 alone */
  VF_ASSUME(yr_hash_table_create(2, &t) == ERROR_SUCCESS);
  module_obj.data = t;
  int rA = call(a2, o2, l2);
  char alone[16]; int alone_undef = vf_ret_undef;
  memcpy(alone, vf_ret, 16);
  /* scan B: range 1 first, then range 2 (fresh cache, as module_load creates per scan) */
  VF_ASSUME(yr_hash_table_create(2, &t) == ERROR_SUCCESS);
  module_obj.data = t;
  int r1 = call(a1, o1, l1);
  int rB = call(a2, o2, l2);
  VF_ASSERT(rA == ERROR_SUCCESS && r1 == ERROR_SUCCESS && rB == ERROR_SUCCESS, "the functions succeed when memory is available");
  VF_ASSERT(vf_ret_undef == alone_undef, "definedness of a digest does not depend on which ranges were requested before it in the scan");
  VF_ASSERT(memcmp(alone, vf_ret, 16) == 0, "the digest of a range does not depend on which ranges were requested before it in the scan");
  VF_WITNESS("end");
  return 0;
}
