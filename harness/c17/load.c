/* C17 - yr_arena_load_stream / yr_rules_load_stream on an ARBITRARY byte stream of length <= VF_F
 * (every truncation point and every header/table/relocation corruption is one point of that space).
 * Real code: arena.c (loader, allocation, relocation registration), stream.c, rules.c (yr_rules_from_arena,
 * yr_rules_destroy), mem.c.
 * Asserted: memory safety (CBMC's pointer/bounds checks, incl. the asserts in arena.c), and on SUCCESS:
 * every registered relocation lies inside its buffer and its slot holds NULL or a pointer inside a loaded buffer.
 *  -DVF_MODE=1: yr_arena_load_stream, hdr.num_buffers <= VF_NB
 *  -DVF_MODE=2: yr_rules_load_stream (loader + yr_rules_from_arena), any num_buffers
 */
#include "vf.h"
#include <assert.h>
#include <string.h>
#include <stdlib.h>
#include <yara/types.h>
#include <yara/arena.h>
#include <yara/stream.h>
#include <yara/rules.h>
#include <yara/error.h>
/* mem.c is replaced for this harness (see yr_realloc below). */
#if VF_MODE == 3
#include "mem.c"
#define yr_realloc vf_unused_realloc
#endif
void* yr_realloc(void* ptr, size_t size)
{
  VF_ASSERT(ptr == NULL, "the loader allocates each buffer exactly once");
#if VF_MODE == 1 && VF_SIZES == 0
  VF_ASSERT(size == 10485, "case sizes0: the arena's first allocation has the loader's initial size");
#endif
  VF_ASSERT(size >= 10485, "arena buffers are never smaller than the initial size");
  __CPROVER_assume(ptr == NULL);
  /* The object handed out is only VF_F bytes long although the arena believes it owns `size` (>= 10485):
     at most VF_F bytes can ever be filled from a file of VF_F bytes, so every legitimate access is inside;
     an access beyond VF_F is REPORTED (stricter than reality), never hidden.  Objects of 10485 bytes or of
     symbolic size made the SAT encoding run out of memory at 24 GB (probe recorded in DESIGN section 4). */
  void* p = malloc(VF_F);
  __CPROVER_assume(p != NULL);
  return p;
}
#if VF_MODE != 3
void* yr_malloc(size_t size) { void* p = malloc(size); __CPROVER_assume(p != NULL); return p; }
void* yr_calloc(size_t count, size_t size) { void* p = calloc(count, size); __CPROVER_assume(p != NULL); return p; }
void yr_free(void* ptr) { free(ptr); }
#else
#undef yr_realloc
#endif
#include "stream.c"
#include "arena.c"
#if VF_MODE >= 2
#include "rules.c"
#endif

#ifndef VF_F
#define VF_F 96
#endif
#ifndef VF_NB
#define VF_NB 2
#endif

static uint8_t file[VF_F];
static size_t file_len, file_pos;

static size_t rd(void* ptr, size_t size, size_t count, void* ud)
{
  /* fread semantics: number of complete items delivered */
  size_t done = 0;
  uint8_t* out = ptr;
  while (done < count)
  {
    if (size > file_len - file_pos) break;
    if (size == 6) memcpy(out, file + file_pos, 6);          /* header */
    else if (size == 12) memcpy(out, file + file_pos, 12);   /* buffer table entry */
    else if (size == 8) memcpy(out, file + file_pos, 8);     /* relocation entry */
    else
    {
      /* buffer contents (symbolic size): byte loop with constant destination indices - a memcpy of
         symbolic size into the arena's 10 KB buffer makes the array encoding explode */
      for (size_t i = 0; i < VF_F; i++)
      {
        if (i >= size) break;
        out[i] = file[file_pos + i];
      }
    }
    out += size;
    file_pos += size;
    done++;
  }
  return done;
}

static int inside_some_buffer(YR_ARENA* a, void* p)
{
  for (uint32_t i = 0; i < YR_MAX_ARENA_BUFFERS; i++)
  {
    if (i >= a->num_buffers) break;
    YR_ARENA_BUFFER* b = &a->buffers[i];
#ifdef VF_REPLAY
    if (b->data != NULL && (uint8_t*) p >= b->data && (uint8_t*) p <= b->data + b->used) return 1;
#else
    if (b->data != NULL && __CPROVER_same_object(p, b->data) && __CPROVER_POINTER_OFFSET(p) <= b->used) return 1;
#endif
  }
  return 0;
}

int main(void)
{
  file_len = vf_range(0, VF_F);
  vf_fill(file, VF_F);
  file_pos = 0;
  YR_STREAM st;
  st.user_data = NULL;
  st.read = rd;
  st.write = NULL;
#if VF_MODE == 1
  /* bound on the number of buffers declared by the header (byte 5) */
  VF_ASSUME(file[5] <= VF_NB);
  /* case split on the buffer sizes the file declares (together the cases cover every file):
     VF_SIZES=0: every declared size <= VF_F (then the arena's first allocation has its constant initial size)
     VF_SIZES=1: buffer 0 declares more than VF_F bytes
     VF_SIZES=2: buffer 0 declares <= VF_F, buffer 1 declares more than VF_F */
  {
    uint32_t s0, s1;
    memcpy(&s0, file + 6 + 8, 4);
    memcpy(&s1, file + 6 + 12 + 8, 4);
#if VF_SIZES == 0
    VF_ASSUME(s0 <= VF_F && s1 <= VF_F);
#elif VF_SIZES == 1
    VF_ASSUME(s0 > VF_F);
#elif VF_SIZES == 2
    VF_ASSUME(s0 <= VF_F && s1 > VF_F);
#endif   /* VF_SIZES == 3: no case assumption at all */
  }
  YR_ARENA* arena = NULL;
  int r = yr_arena_load_stream(&st, &arena);
  if (r == ERROR_SUCCESS)
  {
    VF_ASSERT(arena != NULL, "success returns an arena");
    int nrel = 0;
    /* The slot post-condition is claimed for files whose relocation entries do not overlap each other (true
       of every file the library writes and of every prefix of one).  With overlapping entries the second
       conversion re-reads bytes of an already converted pointer; whether that is rejected depends on the
       numeric value of a heap address, which CBMC and a real process represent differently (DESIGN 5.C17). */
    for (YR_RELOC* r1 = arena->reloc_list_head; r1 != NULL; r1 = r1->next)
      for (YR_RELOC* r2 = r1->next; r2 != NULL; r2 = r2->next)
        VF_ASSUME(r1->buffer_id != r2->buffer_id || r1->offset + 8 <= r2->offset || r2->offset + 8 <= r1->offset);
    for (YR_RELOC* rl = arena->reloc_list_head; rl != NULL; rl = rl->next)
    {
      nrel++;
      VF_ASSERT(rl->buffer_id < arena->num_buffers, "relocation designates an existing buffer");
      YR_ARENA_BUFFER* b = &arena->buffers[rl->buffer_id];
      VF_ASSERT(b->data != NULL && (size_t) rl->offset + sizeof(void*) <= b->used, "relocation slot lies inside its buffer");
      void* p;
      memcpy(&p, b->data + rl->offset, sizeof(p));
      VF_ASSERT(p == NULL || inside_some_buffer(arena, p), "relocated slot holds NULL or a pointer inside a loaded buffer");
    }
    VF_ASSERT(file_pos >= 6, "a successful load consumed at least the header");
    yr_arena_release(arena);
    VF_WITNESS("success");
  }
  else
  {
    VF_ASSERT(r == ERROR_INVALID_FILE || r == ERROR_CORRUPT_FILE || r == ERROR_UNSUPPORTED_FILE_VERSION ||
                  r == ERROR_INSUFFICIENT_MEMORY, "failure is one of the documented load errors");
    VF_WITNESS("error");
  }
#elif VF_MODE == 3
  /* yr_rules_from_arena on ANY arena the loader can return: 0..16 buffers, each either empty
     (data NULL, used 0) or holding `used` <= VF_B symbolic bytes. */
  YR_ARENA* arena = NULL;
  uint32_t nb = vf_range(0, YR_MAX_ARENA_BUFFERS);
  int rc = yr_arena_create(nb, 10485, &arena);
  VF_ASSUME(rc == ERROR_SUCCESS);
  for (uint32_t i = 0; i < YR_MAX_ARENA_BUFFERS; i++)
  {
    if (i >= nb) break;
    size_t used = vf_range(0, VF_B);
    if (used > 0)
    {
      arena->buffers[i].data = malloc(VF_B);
      __CPROVER_assume(arena->buffers[i].data != NULL);
      vf_fill(arena->buffers[i].data, VF_B);
      arena->buffers[i].size = 10485;
      arena->buffers[i].used = used;
    }
  }
  YR_RULES* rules = NULL;
  int r = yr_rules_from_arena(arena, &rules);
  if (r == ERROR_SUCCESS)
  {
    VF_ASSERT(rules != NULL, "success returns a rule set");
    YR_ARENA* a = rules->arena;
    VF_ASSERT(a->num_buffers == YR_NUM_SECTIONS, "a loaded rule set has all sections");
    VF_ASSERT((size_t) rules->num_rules + 1 <= a->buffers[YR_RULES_TABLE].used / sizeof(YR_RULE), "rules table holds the announced rules and the terminator");
    VF_ASSERT((size_t) rules->num_strings <= a->buffers[YR_STRINGS_TABLE].used / sizeof(YR_STRING), "strings table holds the announced strings");
    VF_ASSERT((size_t) rules->num_namespaces <= a->buffers[YR_NAMESPACES_TABLE].used / sizeof(YR_NAMESPACE), "namespaces table holds the announced namespaces");
    VF_ASSERT(rules->ext_vars_table != NULL && rules->rules_table != NULL, "tables with terminators exist");
    VF_WITNESS("success");
  }
  else
  {
    VF_ASSERT(rules == NULL, "failure returns no rule set");
    VF_ASSERT(r == ERROR_CORRUPT_FILE || r == ERROR_INSUFFICIENT_MEMORY, "failure is a documented load error");
    VF_WITNESS("error");
  }
#else
  YR_RULES* rules = NULL;
  int r = yr_rules_load_stream(&st, &rules);
  if (r == ERROR_SUCCESS)
  {
    VF_ASSERT(rules != NULL, "success returns a rule set");
    YR_ARENA* a = rules->arena;
    VF_ASSERT(a->num_buffers == YR_NUM_SECTIONS, "a loaded rule set has all sections");
    VF_ASSERT((size_t) rules->num_rules + 1 <= a->buffers[YR_RULES_TABLE].used / sizeof(YR_RULE), "rules table holds the announced rules and the terminator");
    VF_ASSERT((size_t) rules->num_strings <= a->buffers[YR_STRINGS_TABLE].used / sizeof(YR_STRING), "strings table holds the announced strings");
    VF_ASSERT((size_t) rules->num_namespaces <= a->buffers[YR_NAMESPACES_TABLE].used / sizeof(YR_NAMESPACE), "namespaces table holds the announced namespaces");
    VF_ASSERT(rules->ext_vars_table != NULL, "externals table has its terminator");
    VF_WITNESS("success");
  }
  else
  {
    VF_ASSERT(rules == NULL, "failure returns no rule set");
    VF_WITNESS("error");
  }
#endif
  return 0;
}
