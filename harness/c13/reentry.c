/* C13.H2 - the inductive step that makes an interrupted scan equal to an uninterrupted one, for ANY mid-scan state:
 * re-entering yr_scanner_scan_mem_blocks after ERROR_BLOCK_NOT_READY does nothing but ask the iterator for the
 * next block.  Pre-state: a scanner in an ARBITRARY suspended state (arbitrary bitmaps, match-list heads, entry point,
 * notebook present); the iterator answers not-ready again.
 * Asserted: return ERROR_BLOCK_NOT_READY, `next` (never `first`) called exactly once, no callback, and every byte of
 * the scanner state unchanged (no re-initialisation of required_eval / notebook / stopwatch, no clean-up).
 * Together with H1 (not-ready before the first block / whole runs) this covers a not-ready answer between any two
 * blocks: the resumed call continues with exactly the `iterator->next` the uninterrupted loop would have issued.
 */
#define VF_STUB_EXEC 1
#include "common/scan_env.h"
#include "mem.c"
#include "strutils.c"
#include "scan.c"
#include "scanner.c"

static YR_RULE rules_table[2];
static YR_NAMESPACE ns0;
static YR_RULES rules;
static YR_BITMASK no_required[1];
static int exec_calls, cb_calls, first_calls, next_calls;
int yr_execute_code(YR_SCAN_CONTEXT* c) { exec_calls++; return ERROR_SUCCESS; }
static int vf_cb(YR_SCAN_CONTEXT* c, int msg, void* data, void* ud) { cb_calls++; return CALLBACK_CONTINUE; }
static YR_MEMORY_BLOCK* it_first(YR_MEMORY_BLOCK_ITERATOR* it) { first_calls++; it->last_error = ERROR_BLOCK_NOT_READY; return NULL; }
static YR_MEMORY_BLOCK* it_next(YR_MEMORY_BLOCK_ITERATOR* it) { next_calls++; it->last_error = ERROR_BLOCK_NOT_READY; return NULL; }

int main(void)
{
  vf_init_tables();
  memset(rules_table, 0, sizeof(rules_table));
  rules_table[0].ns = &ns0;
  rules_table[1].flags = RULE_FLAGS_NULL;
  memset(&rules, 0, sizeof(rules));
  rules.rules_table = rules_table;
  rules.num_rules = 1; rules.num_namespaces = 1; rules.num_strings = 1;
  rules.no_required_strings = no_required;
  no_required[0] = vf_u8() & 1;
  static YR_SCANNER sc, snap;
  static YR_MATCHES matches[1], unconfirmed[1], m_snap[1], u_snap[1];
  static YR_BITMASK bm[4], bm_snap[4];
  static YR_MATCH some_match;
  static YR_NOTEBOOK* nb;
  yr_notebook_create(0, &nb);
  memset(&sc, 0, sizeof(sc));
  sc.rules = &rules;
  sc.flags = SCAN_FLAGS_NO_TRYCATCH | SCAN_FLAGS_REPORT_RULES_MATCHING | SCAN_FLAGS_REPORT_RULES_NOT_MATCHING;
  sc.callback = vf_cb;
  sc.matches = matches;
  sc.unconfirmed_matches = unconfirmed;
  sc.rule_matches_flags = &bm[0];
  sc.ns_unsatisfied_flags = &bm[1];
  sc.required_eval = &bm[2];
  sc.strings_temp_disabled = &bm[3];
  /* arbitrary suspended state */
  for (int i = 0; i < 4; i++) bm[i] = vf_u8() & 1;
  sc.entry_point = vf_u64();
  sc.file_size = vf_u64();
  sc.matches_notebook = nb;
  int has = vf_bool();
  matches[0].head = matches[0].tail = has ? &some_match : NULL;
  matches[0].count = has;
  unconfirmed[0].head = unconfirmed[0].tail = vf_bool() ? &some_match : NULL;
  YR_MEMORY_BLOCK_ITERATOR it;
  memset(&it, 0, sizeof(it));
  it.first = it_first;
  it.next = it_next;
  it.last_error = ERROR_BLOCK_NOT_READY; /* the previous call was suspended */
  sc.iterator = &it;
  memcpy(&snap, &sc, sizeof(sc));
  memcpy(m_snap, matches, sizeof(matches));
  memcpy(u_snap, unconfirmed, sizeof(unconfirmed));
  memcpy(bm_snap, bm, sizeof(bm));

  int r = yr_scanner_scan_mem_blocks(&sc, &it);

  VF_ASSERT(r == ERROR_BLOCK_NOT_READY, "a still-not-ready iterator suspends the scan again");
  VF_ASSERT(next_calls == 1 && first_calls == 0, "a resumed scan asks for the NEXT block, it never restarts the iteration");
  VF_ASSERT(cb_calls == 0 && exec_calls == 0, "a suspended scan evaluates nothing and reports nothing");
  VF_ASSERT(memcmp(&snap, &sc, sizeof(sc)) == 0, "re-entry leaves the scanner object bitwise unchanged");
  VF_ASSERT(memcmp(m_snap, matches, sizeof(matches)) == 0 && memcmp(u_snap, unconfirmed, sizeof(unconfirmed)) == 0, "match lists survive a suspension");
  VF_ASSERT(memcmp(bm_snap, bm, sizeof(bm)) == 0, "verdict / required-evaluation / disabled-string bits survive a suspension");
  VF_WITNESS("end");
  return 0;
}
