#include "common/whole_scan.h"
#include "img_img.h"
static int vf_cb(YR_SCAN_CONTEXT* c, int msg, void* data, void* ud) { return CALLBACK_CONTINUE; }
int main(void)
{
  static uint8_t buf[4];
  vf_init_tables();
  IMG_init();
  IMG_no_required[0] |= 1;
  size_t n = vf_range(0, 4);
  vf_fill(buf, 4);
  static vf_scanner A;
  vf_scanner_init(&A, &IMG_rules_obj, vf_cb, 0);
  YR_MEMORY_BLOCK_ITERATOR itA; static vf_iter_ctx cA;
#if DBG == 1
  size_t c1 = vf_range(0, 4), c2 = vf_range(0, 4);
  VF_ASSUME(c1 <= c2 && c2 <= n);
  vf_iter_setup(&itA, &cA, buf, n, 1, c1, c2);
#else
  vf_iter_setup(&itA, &cA, buf, n, 1, 0, 0);
#endif
  int r = yr_scanner_scan_mem_blocks(&A.sc, &itA);
  VF_ASSERT(r == ERROR_SUCCESS, "ok");
  return 0;
}
