/* C13.H1 - interrupted block iteration: the same data, the same block partition, scanned
 *   run A: uninterrupted,
 *   run B: the iterator answers ERROR_BLOCK_NOT_READY at arbitrary calls (nondet bit per first/next call, at most
 *          VF_MAX_NOTREADY times) and yr_scanner_scan_mem_blocks is repeated until it completes.
 * Real code: whole scan (see common/whole_scan.h) on the image of  rule r { strings: $a = "ab" condition: <T_COND> }.
 * Symbolic: data bytes and length (<= VF_N) and the cut points of the block partition.  The number of blocks and the
 * not-ready schedule are enumerated at harness level (-DVF_NBLOCKS_C, -DVF_SCHED bitmask over iterator calls): a
 * symbolic schedule makes the merged scanner state after a suspended call intractable (probe in DESIGN section 4).
 * Asserted: B returns NOT_READY exactly when the iterator said so, delivers NO callback before its final call, and its
 * final callbacks, match lists and return code equal A's (nothing lost, nothing duplicated).
 */
#ifndef VF_MAX_NOTREADY
#define VF_MAX_NOTREADY 3
#endif
#ifndef VF_NBLOCKS_MAX
#define VF_NBLOCKS_MAX 3
#endif
#ifndef VF_NBLOCKS_MIN
#define VF_NBLOCKS_MIN 1
#endif
#include "common/whole_scan.h"
#include "img_img.h"

#ifndef VF_N
#define VF_N 5
#endif

static vf_trace trA, trB;
static vf_trace* cur;
static int vf_cb(YR_SCAN_CONTEXT* c, int msg, void* data, void* ud)
{
  vf_trace_add(cur, c, msg, data);
  return CALLBACK_CONTINUE;
}

int main(void)
{
  static uint8_t buf[VF_N];
  vf_init_tables();
  IMG_init();
  IMG_no_required[0] |= 1; /* evaluate the rule unconditionally: keeps the VM's ip concrete (see whole_scan.h) */
  size_t n = vf_range(0, VF_N);
  vf_fill(buf, VF_N);
  int nblocks = VF_NBLOCKS_C; /* concrete, see whole_scan.h */
  size_t c1 = vf_range(0, VF_N), c2 = vf_range(0, VF_N);
  VF_ASSUME(c1 <= c2 && c2 <= n);

  static vf_scanner A, B;
  YR_MEMORY_BLOCK_ITERATOR itA, itB;
  static vf_iter_ctx cA, cB;

  vf_scanner_init(&A, &IMG_rules_obj, vf_cb, SCAN_FLAGS_REPORT_RULES_MATCHING | SCAN_FLAGS_REPORT_RULES_NOT_MATCHING);
  vf_iter_setup(&itA, &cA, buf, n, nblocks, c1, c2);
  cur = &trA;
  int rA = yr_scanner_scan_mem_blocks(&A.sc, &itA);
  VF_ASSERT(rA == ERROR_SUCCESS, "uninterrupted scan succeeds");

  vf_scanner_init(&B, &IMG_rules_obj, vf_cb, SCAN_FLAGS_REPORT_RULES_MATCHING | SCAN_FLAGS_REPORT_RULES_NOT_MATCHING);
  vf_iter_setup(&itB, &cB, buf, n, nblocks, c1, c2);
  cB.notready_enabled = 1;
  cur = &trB;
  int rB = ERROR_BLOCK_NOT_READY;
  for (int attempt = 0; attempt <= VF_MAX_NOTREADY; attempt++)
  {
    int before = cB.notready_count;
    rB = yr_scanner_scan_mem_blocks(&B.sc, &itB);
    if (rB != ERROR_BLOCK_NOT_READY) break;
    VF_ASSERT(cB.notready_count == before + 1, "NOT_READY is returned exactly when the iterator reported it");
    VF_ASSERT(trB.n == 0, "no callback is delivered by a suspended scan");
  }
  VF_ASSERT(rB == rA, "the resumed scan completes with the same result as the uninterrupted one");
  VF_ASSERT(vf_trace_eq(&trA, &trB), "final callbacks and match lists equal those of the uninterrupted scan (nothing lost or duplicated)");
  VF_ASSERT(trA.n == 2 && trA.msg[1] == CALLBACK_MSG_SCAN_FINISHED, "one rule message and the final message");
  VF_WITNESS("end");
  return 0;
}
