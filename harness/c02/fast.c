/* C02.H1 - the fast hex matcher yr_re_fast_exec (re.c) on the REAL code emitted by the real compiler for a hex
 * template (image via vfdump), forwards from the pattern start, against spec/hex.h.
 * Symbolic: the data (<= VF_N bytes), its length, the start position inside it.
 * Asserted: the reported length is a length the pattern can match there, and -1 is reported iff there is none.
 * VF_BACKWARDS=1: the backward code, exhaustive, with a recording callback: every reported length is legal.
 */
#define VF_WITH_RE 1
#include "common/scan_env.h"
#include "spec/hex.h"
#include "mem.c"
#define yr_re_exec vf_real_yr_re_exec
#include "re.c"
#undef yr_re_exec
#include "img_img.h"
#include "tmpl.h"
#ifndef VF_N
#define VF_N 6
#endif
static YR_SCAN_CONTEXT ctx;

int main(void)
{
  static uint8_t buf[VF_N];
  IMG_init();
  size_t n = vf_range(0, VF_N);
  size_t off = vf_range(0, VF_N);
  VF_ASSUME(off <= n);
  vf_fill(buf, VF_N);
  memset(&ctx, 0, sizeof(ctx));
  int matches = -7;
  int r = yr_re_fast_exec(&ctx, IMG_re_code + T_FWD_OFF, buf + off, n - off, off, 0, NULL, NULL, &matches);
  VF_ASSERT(r == ERROR_SUCCESS, "matching succeeds when memory is available");
  uint32_t legal = sp_hex_lengths(T_tok, T_NTOK, buf + off, (unsigned) (n - off));
  if (legal == 0)
    VF_ASSERT(matches == -1, "no byte sequence starting here satisfies the pattern => no match reported");
  else
  {
    VF_ASSERT(matches >= 0 && matches <= (int) (n - off), "a pattern that can match here is matched, within the data");
    if (matches >= 0 && matches < 31) VF_ASSERT((legal >> matches) & 1u, "the reported length is a length the pattern can match here");
  }
  VF_WITNESS("end");
  return 0;
}
