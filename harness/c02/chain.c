/* C02.H3 - "this holds equally when a large jump makes the engine split the pattern into pieces that are searched
 * separately and re-joined": the re-joining code, scan.c _yr_scan_verify_chained_string_match (with
 * _yr_scan_update_match_chain_length, _yr_scan_add_match_to_list, _yr_scan_remove_match_from_list), on a chain
 * S1 <- S2 <- S3 with arbitrary gap bounds, fed an arbitrary sequence of VF_K piece occurrences.
 *
 * Precondition (what the block scanner guarantees): occurrences are delivered in the order in which the automaton
 * reaches them - by ascending END position (every piece is its own atom here); occurrences ending at the same
 * position come in any order; the same (piece, offset) is not delivered twice.
 *
 * Oracle (manual: jumps in hex strings / "the shortest possible" match, comment above the function): after the VF_K
 * deliveries, S1 has a CONFIRMED match at offset o1 iff the delivered occurrences contain p1=(S1,o1), p2=(S2,o2),
 * p3=(S3,o3) with  gmin2 <= o2-(o1+len1) <= gmax2  and  gmin3 <= o3-(o2+len2) <= gmax3 ; its length is
 * o3+len3-o1 for the FIRST delivered tail that completes it (non-greedy); offsets in the confirmed list ascend and are
 * distinct; nothing else is in any confirmed list.
 * The sequence of piece ids is enumerated at harness level (-DVF_SEQ, base-3 digits): a symbolic piece id makes every
 * list access a symbolic-index access (no verdict in 1500 s at 4 deliveries).
 * Symbolic: piece lengths (1..2), the four gap bounds (0..VF_G), every delivery (piece, offset 0..VF_D-3).
 */
#include "common/scan_env.h"
#include "mem.c"
#include "strutils.c"
#include "scan.c"

#ifndef VF_K
#define VF_K 4
#endif
#ifndef VF_D
#define VF_D 12
#endif
#ifndef VF_G
#define VF_G 5
#endif

static YR_STRING S[3];
static YR_MATCHES matches[3], unconfirmed[3];
static YR_BITMASK required_eval[1];
static YR_SCAN_CONTEXT sc;
static uint8_t data[VF_D];
static const int vf_pow3[8] = {1, 3, 9, 27, 81, 243, 729, 2187};

int main(void)
{
  int len[3];
  for (int i = 0; i < 3; i++)
  {
    len[i] = (int) vf_range(1, 2);
    S[i].idx = i;
    S[i].rule_idx = 0;
    S[i].flags = STRING_FLAGS_CHAIN_PART | (i == 2 ? STRING_FLAGS_CHAIN_TAIL : 0);
    S[i].chained_to = i ? &S[i - 1] : NULL;
  }
  S[1].chain_gap_min = (int32_t) vf_range(0, VF_G);
  S[1].chain_gap_max = (int32_t) vf_range(0, VF_G);
  S[2].chain_gap_min = (int32_t) vf_range(0, VF_G);
  S[2].chain_gap_max = (int32_t) vf_range(0, VF_G);
  VF_ASSUME(S[1].chain_gap_min <= S[1].chain_gap_max && S[2].chain_gap_min <= S[2].chain_gap_max);
  vf_fill(data, VF_D);

  sc.matches = matches;
  sc.unconfirmed_matches = unconfirmed;
  sc.required_eval = required_eval;
  yr_notebook_create(0, &sc.matches_notebook);

  int piece[VF_K], off[VF_K];
  for (int k = 0; k < VF_K; k++)
  {
#ifdef VF_SEQ /* delivery k is an occurrence of piece (VF_SEQ / 3^k) % 3: enumerated at harness level */
    piece[k] = (VF_SEQ / vf_pow3[k]) % 3;
#else
    piece[k] = (int) vf_range(0, 2);
#endif
    off[k] = (int) vf_range(0, VF_D - 3);
    if (k > 0)
      VF_ASSUME(off[k - 1] + len[piece[k - 1]] <= off[k] + len[piece[k]]); /* ascending end position */
    for (int j = 0; j < VF_K; j++)
    {
      if (j >= k) break;
      VF_ASSUME(!(piece[j] == piece[k] && off[j] == off[k])); /* an occurrence is delivered once */
    }
  }

  for (int k = 0; k < VF_K; k++)
  {
    int r = _yr_scan_verify_chained_string_match(&S[piece[k]], &sc, data + off[k], 0, (uint64_t) off[k], len[piece[k]], 0);
    VF_ASSERT(r == ERROR_SUCCESS, "re-joining never fails below the match limit");
  }

  /* reference: for every head offset, the first completing tail */
  int expect_len[VF_D];
  int nexpect = 0;
  for (int o = 0; o < VF_D; o++) expect_len[o] = -1;
  for (int a = 0; a < VF_K; a++)
  {
    if (piece[a] != 0) continue;
    for (int c = 0; c < VF_K; c++) /* tails in delivery order */
    {
      if (piece[c] != 2 || expect_len[off[a]] >= 0) continue;
      for (int b = 0; b < VF_K; b++)
      {
        if (piece[b] != 1) continue;
        int g2 = off[b] - (off[a] + len[0]);
        int g3 = off[c] - (off[b] + len[1]);
        if (g2 >= S[1].chain_gap_min && g2 <= S[1].chain_gap_max && g3 >= S[2].chain_gap_min && g3 <= S[2].chain_gap_max)
          expect_len[off[a]] = off[c] + len[2] - off[a];
      }
    }
  }
  for (int o = 0; o < VF_D; o++) if (expect_len[o] >= 0) nexpect++;

  VF_ASSERT(matches[1].count == 0 && matches[1].head == NULL && matches[2].count == 0 && matches[2].head == NULL,
            "only the head of a chain ever carries confirmed matches");
  VF_ASSERT(matches[0].count == nexpect, "the number of re-joined matches is the number of documented occurrences");
  int seen = 0;
  int64_t last = -1;
  for (YR_MATCH* m = matches[0].head; m != NULL; m = m->next)
  {
    if (seen >= VF_K) break;
    VF_ASSERT(m->offset >= 0 && m->offset < VF_D && expect_len[m->offset] >= 0, "every re-joined match is a documented occurrence of the whole pattern");
    VF_ASSERT(m->match_length == expect_len[m->offset], "its length is that of the shortest completion");
    VF_ASSERT(m->offset > last, "matches are kept in ascending offset order, without duplicates");
    VF_ASSERT(m->data_length == yr_min(m->match_length, VF_MAX_MATCH_DATA) && (m->data_length == 0 || m->data[0] == data[m->offset]),
              "the recorded match data starts at the head piece");
    last = m->offset;
    seen++;
  }
  VF_ASSERT(seen == nexpect, "list length equals its count");
  VF_ASSERT(nexpect == 0 || yr_bitmask_is_set(required_eval, 0), "a confirmed match marks the rule for evaluation");
  VF_WITNESS("end");
  return 0;
}
