/* C02.H5 - atom choice over the AST of a hex string (atoms.c _yr_atoms_extract_from_re with _yr_atoms_trim), for a
 * pattern of VF_K byte tokens (each a literal, a masked literal or ??; values and masks symbolic) and ANY atom quality
 * function (nondeterministic result per call => every window can win).
 * Property (necessity of the atom AND of where verification starts): the leaf produced for the pattern holds an atom
 * whose bytes/masks are those of `length` CONSECUTIVE tokens p..p+length-1, and its re_nodes[i] is exactly the token
 * p+i - the scanner starts forward/backward verification from re_nodes[0]'s code, so a mismatch between the atom's
 * bytes and its nodes makes genuine occurrences fail verification (a missed match).
 */
#include "vf.h"
#include <assert.h>
#include <string.h>
#include <stdlib.h>
#include <yara/types.h>
#include <yara/atoms.h>
#include <yara/re.h>
#include <yara/stack.h>
#include <yara/error.h>
#include "mem.c"
#include "atoms.c"

/* environment: yr_stack_* (stack.c, checked on its own in C16) replaced by a TYPED stack of the items atoms.c pushes -
 * the real one memcpy()s item_size bytes through a byte buffer, after which the popped RE_NODE pointer is an
 * unconstrained bit pattern for CBMC (no verdict in 900 s). */
#define VF_STACK_MAX 24
struct vf_stack { int top; struct STACK_ITEM items[VF_STACK_MAX]; };
static struct vf_stack vf_the_stack;
static YR_STACK vf_stack_handle;
int yr_stack_create(int initial_capacity, int item_size, YR_STACK** stack)
{
  assert(item_size == sizeof(struct STACK_ITEM));
  vf_the_stack.top = 0;
  *stack = &vf_stack_handle;
  return ERROR_SUCCESS;
}
void yr_stack_destroy(YR_STACK* stack) {}
int yr_stack_push(YR_STACK* stack, void* item)
{
  assert(vf_the_stack.top < VF_STACK_MAX);
  vf_the_stack.items[vf_the_stack.top++] = *(struct STACK_ITEM*) item;
  return ERROR_SUCCESS;
}
int yr_stack_pop(YR_STACK* stack, void* item)
{
  if (vf_the_stack.top == 0) return 0;
  *(struct STACK_ITEM*) item = vf_the_stack.items[--vf_the_stack.top];
  return 1;
}

#ifndef VF_K
#define VF_K 7
#endif

static int vf_quality(YR_ATOMS_CONFIG* config, YR_ATOM* atom) { return (int) vf_range(0, YR_MAX_ATOM_QUALITY); }

static RE_NODE tok[VF_K], concat;

int main(void)
{
  RE_AST ast;
  memset(&ast, 0, sizeof(ast));
  memset(&concat, 0, sizeof(concat));
  concat.type = RE_NODE_CONCAT;
  for (int i = 0; i < VF_K; i++)
  {
    memset(&tok[i], 0, sizeof(tok[i]));
    uint8_t kind = (uint8_t) vf_range(0, 2);
    tok[i].type = kind == 0 ? RE_NODE_LITERAL : kind == 1 ? RE_NODE_MASKED_LITERAL : RE_NODE_ANY;
    tok[i].value = vf_u8();
    tok[i].mask = kind == 0 ? 0xFF : kind == 1 ? (vf_bool() ? 0xF0 : 0x0F) : 0x00;
    if (kind == 2) tok[i].value = 0;
    if (kind == 1) tok[i].value &= tok[i].mask;
    tok[i].prev_sibling = i ? &tok[i - 1] : NULL;
    tok[i].next_sibling = i + 1 < VF_K ? &tok[i + 1] : NULL;
  }
  concat.children_head = &tok[0];
  concat.children_tail = &tok[VF_K - 1];
  ast.root_node = &concat;

  YR_ATOMS_CONFIG cfg;
  memset(&cfg, 0, sizeof(cfg));
  cfg.get_atom_quality = vf_quality;

  YR_ATOM_TREE_NODE* root = _yr_atoms_tree_node_create(ATOM_TREE_OR);
  VF_ASSUME(root != NULL);
  int r = _yr_atoms_extract_from_re(&cfg, &ast, root);
  VF_ASSERT(r == ERROR_SUCCESS, "atom extraction succeeds");
  YR_ATOM_TREE_NODE* leaf = root->children_head;
  VF_ASSERT(leaf != NULL && leaf->type == ATOM_TREE_LEAF && leaf->next_sibling == NULL, "one leaf for a plain sequence of tokens");
  int len = leaf->atom.length;
  VF_ASSERT(len >= 0 && len <= YR_MAX_ATOM_LENGTH, "atom length in range");
  if (len == 0) /* every token of the winning window is ??: an empty atom (lowest quality; such strings are handled as slow) */
  {
    VF_WITNESS("empty atom");
    return 0;
  }
  int p = -1;
  for (int k = 0; k < VF_K; k++) if (leaf->re_nodes[0] == &tok[k]) p = k;
  VF_ASSERT(p >= 0 && p + len <= VF_K, "the atom's first node is a token of the pattern and the atom fits behind it");
  for (int i = 0; i < YR_MAX_ATOM_LENGTH; i++)
  {
    if (i >= len) break;
    VF_ASSERT(leaf->re_nodes[i] == &tok[p + i], "the atom's nodes are consecutive tokens");
    VF_ASSERT(leaf->atom.bytes[i] == (uint8_t) tok[p + i].value && leaf->atom.mask[i] == (uint8_t) tok[p + i].mask,
              "the atom's bytes and masks are those of its nodes: verification starts where the atom starts");
  }
  VF_WITNESS("end");
  return 0;
}
