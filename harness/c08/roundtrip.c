/* C08.H1/H2, C17.H3 - save -> (memory stream) -> load on a SYMBOLIC arena.
 * arena: 2 buffers (24 and 16 symbolic bytes), up to 2 registered relocatable slots in buffer 0 (slot
 * positions 0/8/16 symbolic, distinct), each holding NULL or a pointer to (buffer b, offset o) symbolic.
 *  VF_MODE=1 round trip: loaded arena isomorphic to the original (bytes equal outside slots, slots point
 *            to the same (buffer, offset)), original arena bitwise unchanged by saving, file bytes depend only
 *            on contents and logical references (address independence: CBMC object addresses are arbitrary)
 *  VF_MODE=2 every proper prefix of the saved file: load must not succeed  (C17)
 *  VF_MODE=3 a write error at an arbitrary write call: yr_arena_save_stream reports it and the original arena
 *            is still usable (slots hold their pointers)
 */
#define VF_OBJ 32
#define VF_STREAM_MAX 96
#include "common/arena_env.h"

#define B0 24
#define B1 16

static YR_ARENA* arena;
static uint8_t snap0[B0], snap1[B1];
static int nslots;
static uint32_t slot_off[2];
static int tgt_null[2];
static uint32_t tgt_buf[2], tgt_off[2];

static void build(void)
{
  int rc = yr_arena_create(2, 10485, &arena);
  VF_ASSUME(rc == ERROR_SUCCESS);
  YR_ARENA_REF r0, r1;
  rc = yr_arena_allocate_memory(arena, 0, B0, &r0);
  VF_ASSUME(rc == ERROR_SUCCESS);
  rc = yr_arena_allocate_memory(arena, 1, B1, &r1);
  VF_ASSUME(rc == ERROR_SUCCESS);
  vf_fill(arena->buffers[0].data, B0);
  vf_fill(arena->buffers[1].data, B1);
  nslots = (int) vf_range(0, 2);
  for (int i = 0; i < 2; i++)
  {
    if (i >= nslots) break;
    uint32_t k = vf_range(0, 2);
    slot_off[i] = 8 * k;
    if (i == 1) VF_ASSUME(slot_off[1] != slot_off[0]);
    tgt_null[i] = vf_bool();
    tgt_buf[i] = vf_range(0, 1);
    tgt_off[i] = vf_range(0, (tgt_buf[i] == 0 ? B0 : B1) - 1); /* relocatable pointers point INSIDE a buffer */
    void* p = tgt_null[i] ? NULL : (void*) (arena->buffers[tgt_buf[i]].data + tgt_off[i]);
    memcpy(arena->buffers[0].data + slot_off[i], &p, sizeof(p));
    rc = yr_arena_make_ptr_relocatable(arena, 0, (yr_arena_off_t) slot_off[i], EOL);
    VF_ASSUME(rc == ERROR_SUCCESS);
  }
  memcpy(snap0, arena->buffers[0].data, B0);
  memcpy(snap1, arena->buffers[1].data, B1);
}

static int is_slot(uint32_t off)
{
  for (int i = 0; i < 2; i++)
    if (i < nslots && off >= slot_off[i] && off < slot_off[i] + 8) return 1;
  return 0;
}

int main(void)
{
  build();
  YR_STREAM ws = {.user_data = NULL, .read = NULL, .write = vf_wr};
#if VF_MODE == 3
  vf_write_fail_at = (int) vf_range(0, 8);
#endif
  int r = yr_arena_save_stream(arena, &ws);
#if VF_MODE == 3
  /* 1 header + 2 table entries + 2 buffers + nslots relocation entries */
  if (vf_write_fail_at < 5 + nslots)
    VF_ASSERT(r == ERROR_WRITING_FILE, "a failed write is reported");
  else
    VF_ASSERT(r == ERROR_SUCCESS, "save succeeds when no write fails");
  VF_ASSERT(memcmp(arena->buffers[0].data, snap0, B0) == 0 && memcmp(arena->buffers[1].data, snap1, B1) == 0,
            "the arena being saved is unchanged (still usable) whether or not saving failed");
#else
  VF_ASSERT(r == ERROR_SUCCESS, "saving a well-formed arena succeeds");
  VF_ASSERT(memcmp(arena->buffers[0].data, snap0, B0) == 0 && memcmp(arena->buffers[1].data, snap1, B1) == 0,
            "saving leaves the original arena bitwise unchanged");
  size_t total = 6 + 2 * 12 + B0 + B1 + 8 * (size_t) nslots;
  VF_ASSERT(vf_out_len == total, "file length = header + table + buffers + relocation entries");
#endif

#if VF_MODE == 1
  /* address independence: every byte of the file is a function of contents and logical refs */
  for (uint32_t i = 0; i < B0; i++)
  {
    if (!is_slot(i)) VF_ASSERT(vf_out[30 + i] == snap0[i], "non-pointer bytes are written verbatim");
  }
  for (int i = 0; i < 2; i++)
  {
    if (i >= nslots) break;
    uint32_t fb, fo;
    memcpy(&fb, vf_out + 30 + slot_off[i], 4);
    memcpy(&fo, vf_out + 30 + slot_off[i] + 4, 4);
    if (tgt_null[i])
      VF_ASSERT(fb == UINT32_MAX && fo == UINT32_MAX, "NULL pointer is written as the null reference");
    else
      VF_ASSERT(fb == tgt_buf[i] && fo == tgt_off[i], "pointer is written as its (buffer, offset) reference - no process address reaches the file");
  }
  vf_in = vf_out;
  vf_in_len = vf_out_len;
  vf_in_pos = 0;
  YR_STREAM rs = {.user_data = NULL, .read = vf_rd, .write = NULL};
  YR_ARENA* loaded = NULL;
  r = yr_arena_load_stream(&rs, &loaded);
  VF_ASSERT(r == ERROR_SUCCESS && loaded != NULL, "loading what was saved succeeds");
  VF_ASSERT(loaded->num_buffers == 2 && loaded->buffers[0].used == B0 && loaded->buffers[1].used == B1, "buffer sizes survive");
  for (uint32_t i = 0; i < B0; i++)
    if (!is_slot(i)) VF_ASSERT(loaded->buffers[0].data[i] == snap0[i], "buffer 0 bytes survive");
  for (uint32_t i = 0; i < B1; i++) VF_ASSERT(loaded->buffers[1].data[i] == snap1[i], "buffer 1 bytes survive");
  int nrel = 0;
  for (YR_RELOC* rl = loaded->reloc_list_head; rl != NULL; rl = rl->next) nrel++;
  VF_ASSERT(nrel == nslots, "relocation list survives");
  for (int i = 0; i < 2; i++)
  {
    if (i >= nslots) break;
    void* p;
    memcpy(&p, loaded->buffers[0].data + slot_off[i], sizeof(p));
    if (tgt_null[i])
      VF_ASSERT(p == NULL, "NULL slot stays NULL");
    else
      VF_ASSERT(p == (void*) (loaded->buffers[tgt_buf[i]].data + tgt_off[i]), "slot points to the same (buffer, offset) in the loaded arena");
  }
  yr_arena_release(loaded);
#elif VF_MODE == 2
  size_t n = vf_range(0, VF_STREAM_MAX);
  VF_ASSUME(n < total);
  vf_in = vf_out;
  vf_in_len = n;
  vf_in_pos = 0;
  YR_STREAM rs = {.user_data = NULL, .read = vf_rd, .write = NULL};
  YR_ARENA* loaded = NULL;
  r = yr_arena_load_stream(&rs, &loaded);
  size_t body = 6 + 2 * 12 + B0 + B1;
  if (n >= body)
    VF_ASSERT(r != ERROR_SUCCESS, "a file cut inside the trailing relocation list is rejected");
  else
    VF_ASSERT(r != ERROR_SUCCESS, "a file cut inside the header, the buffer table or a buffer is rejected");
#endif
  yr_arena_release(arena);
  VF_WITNESS("end");
  return 0;
}
