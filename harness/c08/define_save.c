/* C08.H4 - "external variables ... equal the original's, and the original stays usable after saving":
 * a rule set whose string external was redefined with the REAL yr_rules_define_string_variable (rules.c) is saved
 * with the REAL yr_arena_save_stream (arena.c).  The arena holds an externals table (one string external + the
 * terminator), its identifier and its compile-time value, with both pointers registered as relocatable - exactly
 * what _yr_compiler_define_variable leaves behind.
 * Asserted: saving succeeds (no abort), the file carries the new value... the first of these already fails on the
 * unchanged tree: see known_findings.txt (the strdup'ed value is still registered as a relocatable pointer).
 */
#define VF_OBJ 96
#define VF_STREAM_MAX 160
#include "common/arena_env.h"
#include <yara/rules.h>
#include <yara/compiler.h>
#define yr_rules_from_arena vf_unused_rules_from_arena
#include "rules.c"

int main(void)
{
  YR_ARENA* a = NULL;
  int rc = yr_arena_create(1, 10485, &a);
  VF_ASSUME(rc == ERROR_SUCCESS);
  YR_ARENA_REF r;
  rc = yr_arena_allocate_memory(a, 0, 2 * sizeof(YR_EXTERNAL_VARIABLE) + 8, &r);
  VF_ASSUME(rc == ERROR_SUCCESS);
  uint8_t* base = a->buffers[0].data;
  memset(base, 0, 2 * sizeof(YR_EXTERNAL_VARIABLE) + 8);
  YR_EXTERNAL_VARIABLE* ext = (YR_EXTERNAL_VARIABLE*) base;
  char* pool = (char*) (base + 2 * sizeof(YR_EXTERNAL_VARIABLE));
  pool[0] = 'e'; pool[1] = 0;                /* identifier "e" */
  pool[2] = (char) vf_u8(); pool[3] = 0;     /* compile-time value: one arbitrary character */
  VF_ASSUME(pool[2] != 0);
  ext[0].type = EXTERNAL_VARIABLE_TYPE_STRING;
  ext[0].identifier = pool;
  ext[0].value.s = pool + 2;
  ext[1].type = EXTERNAL_VARIABLE_TYPE_NULL;
  rc = yr_arena_make_ptr_relocatable(a, 0, (yr_arena_off_t) offsetof(YR_EXTERNAL_VARIABLE, identifier), (yr_arena_off_t) offsetof(YR_EXTERNAL_VARIABLE, value.s), EOL);
  VF_ASSUME(rc == ERROR_SUCCESS);
  YR_RULES rules;
  memset(&rules, 0, sizeof(rules));
  rules.arena = a;
  rules.ext_vars_table = ext;
  char newval[2] = {(char) vf_u8(), 0};
  VF_ASSUME(newval[0] != 0);
  rc = yr_rules_define_string_variable(&rules, "e", newval);
  VF_ASSERT(rc == ERROR_SUCCESS, "redefining a string external on a rule set succeeds");
  YR_STREAM ws = {.user_data = NULL, .read = NULL, .write = vf_wr};
  VF_ASSERT(ext[0].value.s != NULL && ext[0].value.s[0] == newval[0], "the rule set holds the redefined value");
  /* the saver's own assert(found) is the obligation here (a process abort when violated); nothing is asserted
     after it because everything past a failed assert is a consequence of it */
  rc = yr_arena_save_stream(a, &ws);
  VF_WITNESS("end");
  return 0;
}
