/* exec_env.h - environment for harnesses that run the REAL condition VM
 * (libyara/exec.c: yr_execute_code) on a small concrete-layout program with
 * symbolic operands.  Real code included textually: mem.c arena.c notebook.c
 * bitmask.c sizedstr.c stopwatch-less exec.c.  Stubs (part of the claim):
 *   yr_get_configuration_uint32 -> VF_STACK_SIZE (default 16)
 *   yr_modules_unload_all       -> counts calls
 *   yr_stopwatch_elapsed_ns     -> harness-controlled value
 */
#ifndef VF_EXEC_ENV_H
#define VF_EXEC_ENV_H
#include "vf.h"
#include <assert.h>
#include <string.h>
#include <stdlib.h>
#include <yara/types.h>
#include <yara/exec.h>
#include <yara/libyara.h>
#include <yara/modules.h>
#include <yara/stopwatch.h>

#ifndef VF_STACK_SIZE
#define VF_STACK_SIZE 16
#endif

static uint32_t vf_stack_size = VF_STACK_SIZE;
int yr_get_configuration_uint32(YR_CONFIG_NAME name, uint32_t* value)
{
  *value = vf_stack_size;
  return ERROR_SUCCESS;
}
int yr_get_configuration(YR_CONFIG_NAME name, void* dest)
{
  *(uint32_t*) dest = vf_stack_size;
  return ERROR_SUCCESS;
}

static int vf_unload_calls;
int yr_modules_unload_all(YR_SCAN_CONTEXT* context)
{
  vf_unload_calls++;
  return ERROR_SUCCESS;
}

static uint64_t vf_clock_now;
#ifndef VF_CLOCK_CUSTOM
uint64_t yr_stopwatch_elapsed_ns(YR_STOPWATCH* sw) { return vf_clock_now; }
#endif

#include "mem.c"
#include "arena.c"
#include "notebook.c"
#include "bitmask.c"
#include "sizedstr.c"
#include "exec.c"

/* program builder helpers: layout exactly as yr_parser_emit* writes it */
static uint8_t vf_code[VF_CODE_MAX];
static unsigned vf_cp;
static void emit8(uint8_t b) { vf_code[vf_cp++] = b; }
/* byte-wise stores keep every code byte a separate (constant or symbolic) cell,
   so that the VM's instruction pointer and opcodes stay concrete in symex */
static void emit32(uint32_t v) { for (int i = 0; i < 4; i++) vf_code[vf_cp++] = (uint8_t)(v >> (8 * i)); }
static void emit64(uint64_t v) { for (int i = 0; i < 8; i++) vf_code[vf_cp++] = (uint8_t)(v >> (8 * i)); }
static void emit_push(uint64_t v) { emit8(OP_PUSH); emit64(v); }
static void emit_op64(uint8_t op, uint64_t v) { emit8(op); emit64(v); }
/* OP_INIT_RULE <int32 offset to end of rule> <uint32 rule idx>; offset fixed up by emit_rule_end */
static unsigned vf_init_at;
static void emit_rule_begin(uint32_t idx)
{
  vf_init_at = vf_cp;
  emit8(OP_INIT_RULE);
  emit32(0);
  emit32(idx);
}
static void emit_rule_end(uint32_t idx)
{
  emit8(OP_MATCH_RULE);
  emit64(idx);
  uint32_t off = (uint32_t)(vf_cp - vf_init_at);
  for (int i = 0; i < 4; i++) vf_code[vf_init_at + 1 + i] = (uint8_t)(off >> (8 * i));
}
#endif
