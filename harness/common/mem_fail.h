/* mem_fail.h - allocator for fault-injection harnesses (C16).  Replaces mem.c.
 * Every yr_malloc / yr_calloc / yr_realloc / yr_strdup / yr_strndup call may fail independently
 * (one nondeterministic bit per call): ONE query therefore covers every subset of failing allocation sites
 * of the unit, i.e. "the k-th allocation fails" for every k and every combination.
 * Live blocks are counted so that "nothing leaks" is an assertion (vf_live == 0 after the documented clean-up).
 */
#ifndef VF_MEM_FAIL_H
#define VF_MEM_FAIL_H
#include "vf.h"
#include <stdlib.h>
#include <string.h>
static int vf_live, vf_failed_allocs, vf_alloc_calls;
static int vf_fail_enabled = 1;
static int vf_fails(void)
{
  vf_alloc_calls++;
  if (vf_fail_enabled && vf_bool()) { vf_failed_allocs++; return 1; }
  return 0;
}
void* yr_malloc(size_t size)
{
  if (vf_fails()) return NULL;
  void* p = malloc(size ? size : 1);
  __CPROVER_assume(p != NULL);
  vf_live++;
  return p;
}
void* yr_calloc(size_t count, size_t size)
{
  if (vf_fails()) return NULL;
  void* p = calloc(count ? count : 1, size ? size : 1);
  __CPROVER_assume(p != NULL);
  vf_live++;
  return p;
}
void* yr_realloc(void* ptr, size_t size)
{
  if (vf_fails()) return NULL; /* the old block stays valid, as with realloc(3) */
  void* p = realloc(ptr, size ? size : 1);
  __CPROVER_assume(p != NULL);
  if (ptr == NULL) vf_live++;
  return p;
}
char* yr_strdup(const char* s)
{
  if (vf_fails()) return NULL;
  size_t n = strlen(s);
  char* p = malloc(n + 1);
  __CPROVER_assume(p != NULL);
  memcpy(p, s, n + 1);
  vf_live++;
  return p;
}
char* yr_strndup(const char* s, size_t n)
{
  if (vf_fails()) return NULL;
  size_t l = 0;
  while (l < n && s[l]) l++;
  char* p = malloc(l + 1);
  __CPROVER_assume(p != NULL);
  memcpy(p, s, l);
  p[l] = 0;
  vf_live++;
  return p;
}
void yr_free(void* ptr)
{
  if (ptr != NULL) vf_live--;
  free(ptr);
}
int yr_heap_alloc(void) { return 0; }
int yr_heap_free(void) { return 0; }
#endif
