/* arena_env.h - real arena.c + stream.c with
 *   - a memory stream (write appends to vf_out[], read consumes vf_in[] with fread semantics,
 *     optional nondeterministic chunking / failure injection)
 *   - an allocator in which yr_realloc hands out objects of VF_OBJ bytes (constant) although the arena
 *     believes it owns `size` bytes: every harness using this header keeps `used` <= VF_OBJ, so each
 *     legitimate access is inside the object and an access beyond is REPORTED (stricter than reality).
 *     VF_REALLOC_MOVES: realloc of a non-NULL pointer always moves (malloc+copy+free)  [C19]
 */
#ifndef VF_ARENA_ENV_H
#define VF_ARENA_ENV_H
#include "vf.h"
#include <assert.h>
#include <string.h>
#include <stdlib.h>
#include <yara/types.h>
#include <yara/arena.h>
#include <yara/stream.h>
#include <yara/error.h>

#ifndef VF_OBJ
#define VF_OBJ 64
#endif

static int vf_alloc_fail_enabled; /* C16: when set, each allocation may fail (nondet) */
static int vf_allocs, vf_frees;
static int vf_may_fail(void) { return vf_alloc_fail_enabled && vf_bool(); }

void* yr_malloc(size_t size)
{
  if (vf_may_fail()) return NULL;
  void* p = malloc(size);
  __CPROVER_assume(p != NULL);
  vf_allocs++;
  return p;
}
void* yr_calloc(size_t count, size_t size)
{
  if (vf_may_fail()) return NULL;
  void* p = calloc(count, size);
  __CPROVER_assume(p != NULL);
  vf_allocs++;
  return p;
}
void yr_free(void* ptr)
{
  if (ptr != NULL) vf_frees++;
  free(ptr);
}
void* yr_realloc(void* ptr, size_t size)
{
  if (vf_may_fail()) return NULL;
  void* p = malloc(VF_OBJ);
  __CPROVER_assume(p != NULL);
  if (ptr != NULL)
  {
    memcpy(p, ptr, VF_OBJ); /* both objects are VF_OBJ bytes */
    free(ptr);
  }
  else
    vf_allocs++;
  return p;
}
char* yr_strdup(const char* s)
{
  if (vf_may_fail()) return NULL;
  size_t n = strlen(s);
  char* p = malloc(n + 1);
  __CPROVER_assume(p != NULL);
  memcpy(p, s, n + 1);
  vf_allocs++;
  return p;
}

#include "stream.c"
#include "arena.c"

#ifndef VF_STREAM_MAX
#define VF_STREAM_MAX 128
#endif
static uint8_t vf_out[VF_STREAM_MAX];
static size_t vf_out_len;
static int vf_write_fail_at = -1; /* k-th write call fails (>=0) */
static int vf_write_calls;
static size_t vf_wr(const void* ptr, size_t size, size_t count, void* ud)
{
  if (vf_write_calls++ == vf_write_fail_at) return 0;
  const uint8_t* in = ptr;
  for (size_t c = 0; c < count; c++)
  {
    VF_ASSERT(vf_out_len + size <= VF_STREAM_MAX, "harness stream buffer large enough");
    for (size_t i = 0; i < VF_STREAM_MAX; i++)
    {
      if (i >= size) break;
      vf_out[vf_out_len + i] = in[c * size + i];
    }
    vf_out_len += size;
  }
  return count;
}
static const uint8_t* vf_in;
static size_t vf_in_len, vf_in_pos;
static size_t vf_rd(void* ptr, size_t size, size_t count, void* ud)
{
  size_t done = 0;
  uint8_t* out = ptr;
  while (done < count)
  {
    if (size > vf_in_len - vf_in_pos) break;
    if (size == 6) memcpy(out, vf_in + vf_in_pos, 6);
    else if (size == 12) memcpy(out, vf_in + vf_in_pos, 12);
    else if (size == 8) memcpy(out, vf_in + vf_in_pos, 8);
    else
      for (size_t i = 0; i < VF_STREAM_MAX; i++)
      {
        if (i >= size) break;
        out[i] = vf_in[vf_in_pos + i];
      }
    out += size;
    vf_in_pos += size;
    done++;
  }
  return done;
}
#endif
