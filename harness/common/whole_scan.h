/* whole_scan.h - the REAL whole scan: yr_scanner_scan_mem_blocks (scanner.c) -> AC walk -> scan.c verification
 * -> real yr_execute_code (exec.c) on the rule bytecode of the image -> reporting loop -> end-of-scan cleanup.
 * Images: one or two prefixes (IMG_, optionally B_).  See scan_env.h for the stubs.
 * The rule's bit in no_required_strings is SET by the harness (vf_force_eval) so that OP_INIT_RULE does not
 * branch on symbolic data and the VM's instruction pointer stays concrete (DESIGN section 4, P14); that this
 * changes no verdict is C12.H5.
 */
#ifndef VF_WHOLE_SCAN_H
#define VF_WHOLE_SCAN_H
#include "common/scan_env.h"
#include <yara/modules.h>
static int vf_unload_calls;
int yr_modules_unload_all(YR_SCAN_CONTEXT* context)
{
  vf_unload_calls++;
  return ERROR_SUCCESS;
}
#include "mem.c"
#include "strutils.c"
#include "arena.c"
#include "sizedstr.c"
#ifdef VF_WITH_RE
/* re.c is included for yr_re_fast_exec; the full regex VM yr_re_exec is renamed out of reach (its symbolic
   execution is intractable, DESIGN P7) and the name keeps the must-be-unreachable stub of scan_env.h */
#define yr_re_exec vf_real_yr_re_exec
#include "re.c"
#undef yr_re_exec
#endif
#include "scan.c"
#include "exec.c"
#include "scanner.c"

#ifndef VF_MAX_BLOCKS
#define VF_MAX_BLOCKS 3
#endif
#ifndef VF_MAX_STRINGS
#define VF_MAX_STRINGS 4
#endif

#ifndef VF_MAX_NOTREADY
#define VF_MAX_NOTREADY 0
#endif

typedef struct
{
  YR_MEMORY_BLOCK blocks[VF_MAX_BLOCKS];
  const uint8_t* data[VF_MAX_BLOCKS];
  int nblocks;
  int pos;
  int notready_enabled; /* iterator may answer "not ready" (nondet) until one full iteration completed */
  int notready_count;
  int calls;
  uint64_t total_size;
} vf_iter_ctx;

/* block data pointers are kept in a TYPED side table (handing the pointer through the block's void* context made
   CBMC lose track of what it points to and explore every string kind) */
static const uint8_t* vf_block_data[2][VF_MAX_BLOCKS];
static const uint8_t* vf_fetch(YR_MEMORY_BLOCK* b)
{
  uintptr_t tag = (uintptr_t) b->context; /* (iterator id << 4) | block index */
  return vf_block_data[(tag >> 4) & 1][tag & 3];
}

/* nblocks_c: CONCRETE number of blocks (VF_NBLOCKS_C), the schedule VF_SCHED is a CONCRETE bitmask over the
   first/next calls of the scanning pass: every decision of the iterator is concrete, only block sizes/contents
   are symbolic */
#ifndef VF_NBLOCKS_C
#define VF_NBLOCKS_C VF_MAX_BLOCKS
#endif
#ifndef VF_SCHED
#define VF_SCHED 0
#endif
static YR_MEMORY_BLOCK* vf_deliver(YR_MEMORY_BLOCK_ITERATOR* it)
{
  vf_iter_ctx* c = (vf_iter_ctx*) it->context;
  c->calls++;
  it->last_error = ERROR_SUCCESS;
  if (c->pos >= VF_NBLOCKS_C)
  {
    c->notready_enabled = 0; /* a full iteration completed: later iterations never answer not-ready (docs/capi.rst) */
    return NULL;
  }
  if (c->notready_enabled && ((VF_SCHED >> (c->calls - 1)) & 1))
  {
    c->notready_count++;
    it->last_error = ERROR_BLOCK_NOT_READY;
    return NULL;
  }
  return &c->blocks[c->pos++];
}
static YR_MEMORY_BLOCK* vf_it_first(YR_MEMORY_BLOCK_ITERATOR* it)
{
  ((vf_iter_ctx*) it->context)->pos = 0;
  return vf_deliver(it);
}
static YR_MEMORY_BLOCK* vf_it_next(YR_MEMORY_BLOCK_ITERATOR* it) { return vf_deliver(it); }
static uint64_t vf_it_file_size(YR_MEMORY_BLOCK_ITERATOR* it) { return ((vf_iter_ctx*) it->context)->total_size; }

/* split buf[0..n) into nblocks contiguous blocks at cut points c1 <= c2 */
static int vf_iter_ids;
static void vf_iter_setup(YR_MEMORY_BLOCK_ITERATOR* it, vf_iter_ctx* c, const uint8_t* buf, size_t n, int nblocks, size_t c1, size_t c2)
{
  int id = (vf_iter_ids++) & 1;
  memset(c, 0, sizeof(*c));
  size_t start[4] = {0, c1, c2, n};
  if (nblocks == 1) { start[1] = n; }
  if (nblocks == 2) { start[2] = n; }
  c->nblocks = nblocks;
  for (int i = 0; i < VF_MAX_BLOCKS; i++)
  {
    if (i >= nblocks) break;
    c->blocks[i].base = start[i];
    c->blocks[i].size = start[i + 1] - start[i];
    c->blocks[i].context = (void*) (uintptr_t) ((id << 4) | i);
    vf_block_data[id][i] = buf + start[i];
    c->blocks[i].fetch_data = vf_fetch;
  }
  c->total_size = n;
  it->context = c;
  it->first = vf_it_first;
  it->next = vf_it_next;
  it->file_size = vf_it_file_size;
  it->last_error = ERROR_SUCCESS;
}

typedef struct
{
  YR_SCANNER sc;
  YR_MATCHES matches[VF_MAX_STRINGS], unconfirmed[VF_MAX_STRINGS];
  YR_BITMASK rule_matches[1], ns_unsat[1], required_eval[1], temp_disabled[1];
} vf_scanner;

static void vf_scanner_init(vf_scanner* s, YR_RULES* rules, YR_CALLBACK_FUNC cb, int flags)
{
  memset(s, 0, sizeof(*s));
  s->sc.rules = rules;
  s->sc.flags = SCAN_FLAGS_NO_TRYCATCH | flags;
  s->sc.callback = cb;
  s->sc.matches = s->matches;
  s->sc.unconfirmed_matches = s->unconfirmed;
  s->sc.rule_matches_flags = s->rule_matches;
  s->sc.ns_unsatisfied_flags = s->ns_unsat;
  s->sc.required_eval = s->required_eval;
  s->sc.strings_temp_disabled = s->temp_disabled;
  s->sc.entry_point = YR_UNDEFINED;
  s->sc.file_size = YR_UNDEFINED;
}

/* callback trace */
#define VF_TR_MAX 8
typedef struct
{
  int n;
  int msg[VF_TR_MAX];
  int rule_idx[VF_TR_MAX];
  int nmatch[VF_TR_MAX];          /* matches of string VF_TR_STRING at the time of the message */
  int64_t moff[VF_TR_MAX][4];
  int32_t mlen[VF_TR_MAX][4];
} vf_trace;
#ifndef VF_TR_STRING
#define VF_TR_STRING 0
#endif
static void vf_trace_add(vf_trace* t, YR_SCAN_CONTEXT* c, int msg, void* data)
{
  VF_ASSERT(t->n < VF_TR_MAX, "callback trace fits");
  int k = t->n < VF_TR_MAX ? t->n : VF_TR_MAX - 1;
  t->msg[k] = msg;
  t->rule_idx[k] = (msg == CALLBACK_MSG_RULE_MATCHING || msg == CALLBACK_MSG_RULE_NOT_MATCHING) ? (int) ((YR_RULE*) data - c->rules->rules_table) : -1;
  int nm = 0;
  for (YR_MATCH* m = c->matches[VF_TR_STRING].head; m != NULL; m = m->next)
  {
    if (nm < 4) { t->moff[k][nm] = m->base + m->offset; t->mlen[k][nm] = m->match_length; }
    nm++;
  }
  t->nmatch[k] = nm;
  t->n++;
}
static int vf_trace_eq(const vf_trace* a, const vf_trace* b)
{
  if (a->n != b->n) return 0;
  for (int i = 0; i < VF_TR_MAX; i++)
  {
    if (i >= a->n) break;
    if (a->msg[i] != b->msg[i] || a->rule_idx[i] != b->rule_idx[i] || a->nmatch[i] != b->nmatch[i]) return 0;
    for (int j = 0; j < 4; j++)
    {
      if (j >= a->nmatch[i]) break;
      if (a->moff[i][j] != b->moff[i][j] || a->mlen[i][j] != b->mlen[i][j]) return 0;
    }
  }
  return 1;
}
#endif
