/* C04.H2 - string-match query opcodes of the real VM (exec.c): OP_FOUND, FOUND_AT, FOUND_IN, COUNT, COUNT_IN,
 * OFFSET, LENGTH, OF, OF_PERCENT on an ARBITRARY sorted duplicate-free match list (the post-condition of C01) of
 * <= 3 matches for string 0 and <= 1 for string 1; all integer operands symbolic incl. undefined.
 * Oracle: set semantics of the manual ("$a at k", "$a in (a..b)", "#a", "#a in (a..b)", "@a[i]", "!a[i]", "q of ($a,$b)", "p% of").
 *   -DVF_Q=<1..9> selects the query.
 */
#define VF_CODE_MAX 64
#include "common/exec_env.h"
#include "spec/ops.h"

static YR_RULE rules_table[1];
static YR_NAMESPACE ns0;
static YR_RULES rules;
static YR_SCAN_CONTEXT ctx;
static YR_BITMASK rule_matches[1], ns_unsat[1], required_eval[1];
static YR_ARENA rules_arena;
static YR_STRING strs[2];
static YR_MATCHES mlists[2];
static YR_MATCH nodes[4];

static void emit_ptr(void* p)
{
  emit8(OP_PUSH);
  memcpy(&vf_code[vf_cp], &p, sizeof(p)); /* a pointer operand, exactly as yr_parser_emit_with_arg_reloc leaves it after loading */
  vf_cp += 8;
}

int main(void)
{
  /* ---- arbitrary well-formed match lists ---- */
  int n0 = (int) vf_range(0, 3), n1 = (int) vf_range(0, 1);
  int64_t off[3]; int32_t len[3];
  for (int i = 0; i < 3; i++)
  {
    off[i] = (int64_t) (vf_u64() & 0x7FFFFFFFFFFFULL);
    len[i] = (int32_t) vf_range(1, 1000);
    if (i > 0) VF_ASSUME(off[i] > off[i - 1]); /* ascending, no duplicates */
  }
  memset(nodes, 0, sizeof(nodes));
  memset(mlists, 0, sizeof(mlists));
  for (int i = 0; i < 3; i++)
  {
    if (i >= n0) break;
    nodes[i].base = 0;
    nodes[i].offset = off[i];
    nodes[i].match_length = len[i];
    nodes[i].prev = i > 0 ? &nodes[i - 1] : NULL;
    nodes[i].next = (i + 1 < n0) ? &nodes[i + 1] : NULL;
  }
  mlists[0].head = n0 ? &nodes[0] : NULL;
  mlists[0].tail = n0 ? &nodes[n0 - 1] : NULL;
  mlists[0].count = n0;
  nodes[3].offset = 7; nodes[3].match_length = 1;
  mlists[1].head = mlists[1].tail = n1 ? &nodes[3] : NULL;
  mlists[1].count = n1;
  memset(strs, 0, sizeof(strs));
  strs[0].idx = 0; strs[1].idx = 1;

  uint64_t a = vf_u64(), b = vf_u64(), e = vf_u64();
  vf_cp = 0;
  emit_rule_begin(0);
  int expect; /* expected verdict of the rule */
  int64_t sa = (int64_t) a, sb = (int64_t) b;
  int ua = a == SPEC_UNDEF, ub = b == SPEC_UNDEF;
#if VF_Q == 1   /* $a */
  emit_ptr(&strs[0]); emit8(OP_FOUND);
  expect = n0 > 0;
#elif VF_Q == 2 /* $a at a */
  emit_push(a); emit_ptr(&strs[0]); emit8(OP_FOUND_AT);
  expect = 0;
  for (int i = 0; i < 3; i++) if (i < n0 && !ua && off[i] == sa) expect = 1;
#elif VF_Q == 3 /* $a in (a..b) */
  emit_push(a); emit_push(b); emit_ptr(&strs[0]); emit8(OP_FOUND_IN);
  expect = 0;
  for (int i = 0; i < 3; i++) if (i < n0 && !ua && !ub && off[i] >= sa && off[i] <= sb) expect = 1;
#elif VF_Q == 4 /* #a == e */
  emit_ptr(&strs[0]); emit8(OP_COUNT); emit_push(e); emit8(OP_INT_EQ);
  expect = e != SPEC_UNDEF && (int64_t) e == n0;
#elif VF_Q == 5 /* #a in (a..b) == e */
  emit_push(a); emit_push(b); emit_ptr(&strs[0]); emit8(OP_COUNT_IN); emit_push(e); emit8(OP_INT_EQ);
  {
    int c = 0;
    for (int i = 0; i < 3; i++) if (i < n0 && off[i] >= sa && off[i] <= sb) c++;
    expect = !ua && !ub && e != SPEC_UNDEF && (int64_t) e == c;
  }
#elif VF_Q == 6 /* @a[a] == e */
  emit_push(a); emit_ptr(&strs[0]); emit8(OP_OFFSET); emit_push(e); emit8(OP_INT_EQ);
  expect = !ua && sa >= 1 && sa <= n0 && e != SPEC_UNDEF && (int64_t) e == off[(sa >= 1 && sa <= 3) ? sa - 1 : 0];
#elif VF_Q == 7 /* !a[a] == e */
  emit_push(a); emit_ptr(&strs[0]); emit8(OP_LENGTH); emit_push(e); emit8(OP_INT_EQ);
  expect = !ua && sa >= 1 && sa <= n0 && e != SPEC_UNDEF && (int64_t) e == len[(sa >= 1 && sa <= 3) ? sa - 1 : 0];
#elif VF_Q == 8 /* a of ($a, $b)   (a undefined = "all", 0 = "none") */
  emit_push(a); emit8(OP_PUSH_U); emit_ptr(&strs[0]); emit_ptr(&strs[1]); emit8(OP_OF); emit64(OF_STRING_SET);
  {
    int found = (n0 > 0) + (n1 > 0);
    expect = ua ? found == 2 : sa == 0 ? found == 0 : found >= sa;
  }
#elif VF_Q == 9 /* a% of ($a, $b) */
  emit_push(a); emit8(OP_PUSH_U); emit_ptr(&strs[0]); emit_ptr(&strs[1]); emit8(OP_OF_PERCENT); emit64(OF_STRING_SET);
  {
    int found = (n0 > 0) + (n1 > 0);
    VF_ASSUME(ua || (sa >= 1 && sa <= 100)); /* the grammar restricts percentages to 1..100 */
    expect = !ua && found * 100 >= sa * 2;
  }
#endif
  emit_rule_end(0);
  emit8(OP_HALT);

  memset(&ctx, 0, sizeof(ctx));
  memset(&rules, 0, sizeof(rules));
  memset(rules_table, 0, sizeof(rules_table));
  rule_matches[0] = ns_unsat[0] = 0;
  required_eval[0] = 1;
  rules_table[0].ns = &ns0;
  rules.rules_table = rules_table;
  rules.num_rules = 1;
  rules.code_start = vf_code;
  memset(&rules_arena, 0, sizeof(rules_arena));
  rules_arena.num_buffers = 2;
  rules_arena.buffers[0].data = (uint8_t*) rules_table;
  rules_arena.buffers[0].size = rules_arena.buffers[0].used = sizeof(rules_table);
  rules_arena.buffers[1].data = (uint8_t*) strs;
  rules_arena.buffers[1].size = rules_arena.buffers[1].used = sizeof(strs);
  rules.arena = &rules_arena;
  ctx.rules = &rules;
  ctx.rule_matches_flags = rule_matches;
  ctx.ns_unsatisfied_flags = ns_unsat;
  ctx.required_eval = required_eval;
  ctx.matches = mlists;
  int r = yr_execute_code(&ctx);
  VF_ASSERT(r == ERROR_SUCCESS, "evaluation succeeds");
  VF_ASSERT((int) (rule_matches[0] & 1) == (expect != 0), "the rule's verdict equals the documented semantics evaluated on the match sets");
  VF_WITNESS("end");
  return 0;
}
