/* C04.H1 - one VM opcode, all operand values.
 * Program (layout of yr_parser_emit*):
 *   INIT_RULE 0; PUSH a; [PUSH b;] OP; <observer>; MATCH_RULE 0; HALT
 * observer 1: PUSH e; INT_EQ (or DBL_EQ)  -> rule matches iff result defined and == e
 * observer 2: DEFINED                      -> rule matches iff result defined
 * -DVF_OP=<opcode> -DVF_ARITY=1|2 -DVF_KIND=0 (int) | 1 (double arithmetic, raw compare) | 2 (double compare -> int)
 */
#define VF_CODE_MAX 64
#include "common/exec_env.h"
#include "spec/ops.h"

static YR_RULE rules_table[1];
static YR_NAMESPACE ns0;
static YR_RULES rules;
static YR_SCAN_CONTEXT ctx;
static YR_BITMASK rule_matches[1], ns_unsat[1], required_eval[1];
static YR_ARENA rules_arena; /* YR_PARANOID_EXEC checks rule pointers against the rules arena */

static int run(uint64_t a, uint64_t b, int observer, uint64_t e)
{
  vf_cp = 0;
  emit_rule_begin(0);
  emit_push(a);
#if VF_ARITY == 2
  emit_push(b);
#endif
  emit8(VF_OP);
  if (observer == 1)
  {
    emit_push(e);
    emit8(OP_INT_EQ);
  }
  else
    emit8(OP_DEFINED);
  emit_rule_end(0);
  emit8(OP_HALT);

  memset(&ctx, 0, sizeof(ctx));
  memset(&rules, 0, sizeof(rules));
  memset(rules_table, 0, sizeof(rules_table));
  rule_matches[0] = ns_unsat[0] = 0;
  required_eval[0] = 1;
  rules_table[0].ns = &ns0;
  ns0.idx = 0;
  rules.rules_table = rules_table;
  rules.num_rules = 1;
  rules.code_start = vf_code;
  memset(&rules_arena, 0, sizeof(rules_arena));
  rules_arena.num_buffers = 1;
  rules_arena.buffers[0].data = (uint8_t*) rules_table;
  rules_arena.buffers[0].size = rules_arena.buffers[0].used = sizeof(rules_table);
  rules.arena = &rules_arena;
  ctx.rules = &rules;
  ctx.rule_matches_flags = rule_matches;
  ctx.ns_unsatisfied_flags = ns_unsat;
  ctx.required_eval = required_eval;
  ctx.timeout = 0;
  int r = yr_execute_code(&ctx);
  VF_ASSERT(r == ERROR_SUCCESS, "yr_execute_code succeeds on a well-formed straight-line program");
  return (int) (rule_matches[0] & 1);
}

int main(void)
{
  uint64_t a = vf_u64(), b = vf_u64(), e = vf_u64();
  spec_val s;
#if VF_KIND == 0
#if VF_ARITY == 2
  s = spec_int_bin(VF_OP, a, b);
#else
  s = spec_int_un(VF_OP, a);
#endif
#else
  s = spec_dbl_bin(VF_OP, a, b);
#endif
  /* representation caveat (DESIGN 5.C04): a defined result that equals the
     sentinel bit pattern is indistinguishable from undefined by design */
  VF_ASSUME(s.undef || s.v != SPEC_UNDEF);
#if VF_KIND == 1
  /* raw bit comparison of a double result: exclude NaN results (payload is not specified) */
  VF_ASSUME(s.undef || sp_d(s.v) == sp_d(s.v));
  /* -0.0 vs +0.0 are distinct bit patterns but the language cannot tell them apart via ==; compare via INT_EQ on bits is stricter than needed, accept either zero */
#endif
  int m1 = run(a, b, 1, e);
  int m2 = run(a, b, 2, 0);
  VF_ASSERT(m2 == !s.undef, "definedness of the result equals the documented semantics");
  VF_ASSERT(m1 == (!s.undef && e != SPEC_UNDEF && s.v == e), "value of the result equals the documented semantics");
  VF_ASSERT(vf_unload_calls == 2, "modules are unloaded on every exit of yr_execute_code");
  VF_WITNESS("end");
  return 0;
}
