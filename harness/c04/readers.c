/* C04.H3 - the intN/uintN readers of the real VM (exec.c read_<type>_<endianness>) on a 2-block iterator with
 * symbolic bases, sizes (<= 4) and bytes, symbolic offset (full size_t).
 * Oracle: the value is the bytes at `offset` in the declared width/endianness/signedness if the whole read fits in
 * ONE block, undefined otherwise (reads at and past the end of the data, across a block border, in a gap).
 */
#define VF_CODE_MAX 16
#include "common/exec_env.h"
#define BS 4
static uint8_t d0[BS], d1[BS];
static YR_MEMORY_BLOCK blk[2];
static int nblk, pos;
static const uint8_t* fetch(YR_MEMORY_BLOCK* b) { return (const uint8_t*) b->context; }
const uint8_t* yr_fetch_block_data(YR_MEMORY_BLOCK* b) { return b->fetch_data(b); }
static YR_MEMORY_BLOCK* it_deliver(YR_MEMORY_BLOCK_ITERATOR* it) { return pos < nblk ? &blk[pos++] : NULL; }
static YR_MEMORY_BLOCK* it_first(YR_MEMORY_BLOCK_ITERATOR* it) { pos = 0; return it_deliver(it); }

int main(void)
{
  vf_fill(d0, BS);
  vf_fill(d1, BS);
  nblk = (int) vf_range(1, 2);
  uint64_t b0 = vf_range(0, 3), s0 = vf_range(0, BS), gap = vf_range(0, 2), s1 = vf_range(0, BS);
  blk[0].base = b0; blk[0].size = s0; blk[0].context = d0; blk[0].fetch_data = fetch;
  blk[1].base = b0 + s0 + gap; blk[1].size = s1; blk[1].context = d1; blk[1].fetch_data = fetch;
  YR_MEMORY_BLOCK_ITERATOR it;
  memset(&it, 0, sizeof(it));
  it.first = it_first;
  it.next = it_deliver;
  size_t offset = (size_t) vf_u64();
  int64_t got = VF_READER(&it, offset);
  /* oracle */
  int found = 0;
  uint64_t raw = 0;
  for (int i = 0; i < 2; i++)
  {
    if (i >= nblk || found) continue;
    if (blk[i].size >= VF_SIZE && offset >= blk[i].base && offset - blk[i].base <= blk[i].size - VF_SIZE)
    {
      const uint8_t* d = (const uint8_t*) blk[i].context + (offset - blk[i].base);
      for (int k = 0; k < VF_SIZE; k++)
        raw |= (uint64_t) d[k] << (8 * (VF_BE ? (VF_SIZE - 1 - k) : k));
      found = 1;
    }
  }
  if (!found)
    VF_ASSERT((uint64_t) got == (uint64_t) YR_UNDEFINED, "a read that does not fit in one block is undefined");
  else
  {
    int64_t want;
    if (VF_SIGNED) want = VF_SIZE == 1 ? (int64_t) (int8_t) raw : VF_SIZE == 2 ? (int64_t) (int16_t) raw : (int64_t) (int32_t) raw;
    else want = (int64_t) raw;
    VF_ASSERT(got == want, "the reader returns the bytes at the offset in the declared width, byte order and signedness");
  }
  VF_WITNESS("end");
  return 0;
}
