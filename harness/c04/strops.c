/* C04.H5 - the string operators of conditions (contains, icontains, startswith, istartswith, endswith, iendswith,
 * iequals, ==, !=, <, <=, >, >= on strings): the real sizedstr.c functions the VM dispatches to (exec.c OP_CONTAINS ..
 * OP_STR_GE call ss_contains .. ss_compare), on two ARBITRARY sized strings of length 0..3 incl. NUL and high bytes.
 * Oracle: direct definitions (substring / prefix / suffix, ASCII case folding; comparison: equal iff identical,
 * antisymmetric, lexicographic on bytes < 0x80).   memmem is modelled by its contract.
 */
#include "vf.h"
#include <assert.h>
#include <string.h>
#include <stdlib.h>
#include <yara/sizedstr.h>
#include <yara/mem.h>
#include <yara/globals.h>
uint8_t yr_lowercase[256];
uint8_t yr_altercase[256];
/* contract model of memmem(3) */
void* vf_memmem(const void* h, size_t hl, const void* n, size_t nl)
{
  const uint8_t* hp = h; const uint8_t* np = n;
  if (nl == 0) return (void*) h;
  if (hl < nl) return NULL;
  for (size_t i = 0; i + nl <= hl; i++)
  {
    size_t j = 0;
    while (j < nl && hp[i + j] == np[j]) j++;
    if (j == nl) return (void*) (hp + i);
  }
  return NULL;
}
#define memmem vf_memmem
#include "mem.c"
#include "sizedstr.c"

#define L 3
static uint8_t lower(uint8_t c) { return (c >= 'A' && c <= 'Z') ? c + 32 : c; }
static int sub_at(const uint8_t* a, unsigned la, const uint8_t* b, unsigned lb, unsigned at, int fold)
{
  if (at + lb > la) return 0;
  for (unsigned j = 0; j < L; j++)
  {
    if (j >= lb) break;
    uint8_t x = a[at + j], y = b[j];
    if (fold ? lower(x) != lower(y) : x != y) return 0;
  }
  return 1;
}

int main(void)
{
  for (int i = 0; i < 256; i++) yr_lowercase[i] = (i >= 'A' && i <= 'Z') ? i + 32 : i;
  static uint64_t buf1[(sizeof(SIZED_STRING) + L + 8) / 8 + 1], buf2[(sizeof(SIZED_STRING) + L + 8) / 8 + 1];
  SIZED_STRING* s1 = (SIZED_STRING*) buf1;
  SIZED_STRING* s2 = (SIZED_STRING*) buf2;
  s1->length = vf_range(0, L);
  s2->length = vf_range(0, L);
  s1->flags = s2->flags = 0;
  uint8_t a[L + 1], b[L + 1];
  for (int i = 0; i < L; i++) { a[i] = vf_u8(); b[i] = vf_u8(); s1->c_string[i] = (char) a[i]; s2->c_string[i] = (char) b[i]; }
  unsigned la = s1->length, lb = s2->length;
  s1->c_string[la] = 0; s2->c_string[lb] = 0;

  int contains = 0, icontains = 0;
  for (unsigned at = 0; at <= L; at++)
  {
    if (sub_at(a, la, b, lb, at, 0)) contains = 1;
    if (sub_at(a, la, b, lb, at, 1)) icontains = 1;
  }
  VF_ASSERT(ss_contains(s1, s2) == (contains != 0), "contains: s2 occurs somewhere in s1");
  VF_ASSERT(ss_icontains(s1, s2) == (icontains != 0), "icontains: s2 occurs somewhere in s1 ignoring ASCII case");
  VF_ASSERT(ss_startswith(s1, s2) == (sub_at(a, la, b, lb, 0, 0) != 0), "startswith: s2 is a prefix of s1");
  VF_ASSERT(ss_istartswith(s1, s2) == (sub_at(a, la, b, lb, 0, 1) != 0), "istartswith: prefix ignoring ASCII case");
  VF_ASSERT(ss_endswith(s1, s2) == (lb <= la && sub_at(a, la, b, lb, la - (lb <= la ? lb : 0), 0)), "endswith: s2 is a suffix of s1");
  VF_ASSERT(ss_iendswith(s1, s2) == (lb <= la && sub_at(a, la, b, lb, la - (lb <= la ? lb : 0), 1)), "iendswith: suffix ignoring ASCII case");
  int same = la == lb && sub_at(a, la, b, lb, 0, 0), isame = la == lb && sub_at(a, la, b, lb, 0, 1);
  int c12 = ss_compare(s1, s2), c21 = ss_compare(s2, s1);
  VF_ASSERT((c12 == 0) == (same != 0), "== holds exactly for identical strings (length and bytes, NULs included)");
  VF_ASSERT((c12 < 0) == (c21 > 0) && (c12 > 0) == (c21 < 0), "string ordering is antisymmetric");
  VF_ASSERT((ss_icompare(s1, s2) == 0) == (isame != 0), "iequals holds exactly for strings identical up to ASCII case");
  {
    /* lexicographic order on ASCII bytes */
    int ascii = 1;
    for (int i = 0; i < L; i++) if ((i < (int) la && a[i] >= 0x80) || (i < (int) lb && b[i] >= 0x80)) ascii = 0;
    if (ascii)
    {
      int want = 0;
      for (unsigned i = 0; i <= L && want == 0; i++)
      {
        if (i >= la && i >= lb) break;
        if (i >= la) want = -1;
        else if (i >= lb) want = 1;
        else if (a[i] != b[i]) want = a[i] < b[i] ? -1 : 1;
      }
      VF_ASSERT((c12 < 0) == (want < 0) && (c12 > 0) == (want > 0), "< <= > >= follow the lexicographic byte order (a proper prefix is smaller)");
    }
  }
  VF_WITNESS("end");
  return 0;
}
