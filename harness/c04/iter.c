/* C04.H4 - loop quantifier opcodes of the real VM (exec.c): OP_ITER_CONDITION (may the loop stop early?) and
 * OP_ITER_END (verdict of the whole loop), all operand values symbolic.
 * Oracle (manual, "for <quantifier> ... : ( body )"; an undefined body counts as false):
 *   ITER_END:  zero iterations => false;  all => every iteration true;  none (0) => no iteration true;
 *              N => at least N iterations true.
 *   ITER_CONDITION: stopping early is only allowed when the verdict is already decided:
 *              all: after a body that is not true;  none: after a body that is true;  N: once N bodies were true.
 *              (continuing is always allowed - it never changes the verdict)
 *   -DVF_MODE=1 ITER_CONDITION, 2 ITER_END
 */
#define VF_CODE_MAX 64
#include "common/exec_env.h"
#include "spec/ops.h"
static YR_RULE rules_table[1];
static YR_NAMESPACE ns0;
static YR_RULES rules;
static YR_SCAN_CONTEXT ctx;
static YR_BITMASK rule_matches[1], ns_unsat[1], required_eval[1];
static YR_ARENA rules_arena;

int main(void)
{
  uint64_t q = vf_u64();        /* quantifier: undefined = all, 0 = none, N */
  uint64_t ntrue = vf_u64();    /* iterations that were true so far */
  uint64_t x = vf_u64();        /* ITER_CONDITION: last body result (0, 1 or undefined); ITER_END: total iterations */
  VF_ASSUME(ntrue < (1ULL << 40));
  vf_cp = 0;
  emit_rule_begin(0);
  emit_push(x);
  emit_push(ntrue);
  emit_push(q);
#if VF_MODE == 1
  VF_ASSUME(x == 0 || x == 1 || x == SPEC_UNDEF);
  emit8(OP_ITER_CONDITION);
  emit8(OP_POP); /* the re-pushed body result */
#else
  VF_ASSUME(x < (1ULL << 40) && ntrue <= x);
  emit8(OP_ITER_END);
#endif
  emit_rule_end(0);
  emit8(OP_HALT);
  memset(&ctx, 0, sizeof(ctx));
  memset(&rules, 0, sizeof(rules));
  memset(rules_table, 0, sizeof(rules_table));
  rule_matches[0] = ns_unsat[0] = 0;
  required_eval[0] = 1;
  rules_table[0].ns = &ns0;
  rules.rules_table = rules_table;
  rules.num_rules = 1;
  rules.code_start = vf_code;
  memset(&rules_arena, 0, sizeof(rules_arena));
  rules_arena.num_buffers = 1;
  rules_arena.buffers[0].data = (uint8_t*) rules_table;
  rules_arena.buffers[0].size = rules_arena.buffers[0].used = sizeof(rules_table);
  rules.arena = &rules_arena;
  ctx.rules = &rules;
  ctx.rule_matches_flags = rule_matches;
  ctx.ns_unsatisfied_flags = ns_unsat;
  ctx.required_eval = required_eval;
  int r = yr_execute_code(&ctx);
  VF_ASSERT(r == ERROR_SUCCESS, "evaluation succeeds");
  int top_true = (int) (rule_matches[0] & 1); /* value left on the stack is true */
  int64_t sq = (int64_t) q;
#if VF_MODE == 1
  int body_true = x == 1;
  int decided = q == SPEC_UNDEF ? !body_true : sq == 0 ? body_true : (int64_t) ntrue + body_true >= sq;
  /* top_true == "continue iterating" */
  VF_ASSERT(top_true || decided, "a loop only stops early once its verdict is decided (an undefined body counts as false)");
#else
  int want = x == 0 ? 0 : q == SPEC_UNDEF ? ntrue == x : sq == 0 ? ntrue == 0 : (int64_t) ntrue >= sq;
  VF_ASSERT(top_true == want, "the loop's verdict follows its quantifier: all / none / at least N, and no iterations => false");
#endif
  VF_WITNESS("end");
  return 0;
}
