/* C05.H5 / C08 - _yr_ac_find_suitable_transition_table_slot (ahocorasick.c): wherever the packing heuristic
 * (yr_bitmask_find_non_colliding_offset - stubbed by its contract: ANY offset in [0, tables_size]) places a state,
 * the state's whole window of 257 transition entries must lie inside the part of the transition table that is
 * accounted for (`used` bytes of the arena buffer = tables_size entries): entries written beyond it would work in
 * memory but are not written by yr_rules_save, so saved rules would differ from the compiled ones.
 */
#define VF_OBJ 4096
#include "common/arena_env.h"
#include <yara/ahocorasick.h>
#include <yara/compiler.h>
#include <yara/bitmask.h>
static uint32_t stub_slot;
uint32_t yr_bitmask_find_non_colliding_offset(YR_BITMASK* a, YR_BITMASK* b, uint32_t len_a, uint32_t len_b, uint32_t* off_a)
{
  return stub_slot; /* contract: some offset <= len_a at which b does not collide with a */
}
#define yr_bitmask_find_non_colliding_offset yr_bitmask_find_non_colliding_offset
#include "ahocorasick.c"

int main(void)
{
  YR_ARENA* a = NULL;
  int rc = yr_arena_create(YR_NUM_SECTIONS, 64, &a);
  VF_ASSUME(rc == ERROR_SUCCESS);
  static YR_AC_AUTOMATON au;
  static YR_AC_STATE st, child;
  uint32_t tables = vf_range(257, 600);
  au.tables_size = tables;
  au.bitmask = malloc(VF_OBJ); /* same size as every object the realloc stub hands out */
  VF_ASSUME(au.bitmask != NULL);
  /* the transition table currently holds `tables` entries */
  rc = yr_arena_allocate_zeroed_memory(a, YR_AC_TRANSITION_TABLE, tables * sizeof(YR_AC_TRANSITION), NULL);
  VF_ASSUME(rc == ERROR_SUCCESS);
  child.input = vf_u8();
  st.first_child = vf_bool() ? &child : NULL;
  stub_slot = vf_range(0, 600);
  VF_ASSUME(stub_slot <= tables);
  uint32_t slot = 0;
  rc = _yr_ac_find_suitable_transition_table_slot(&au, a, &st, &slot);
  VF_ASSERT(rc == ERROR_SUCCESS, "slot search succeeds when memory is available");
  VF_ASSERT(slot == stub_slot, "the slot found by the packing heuristic is used");
  VF_ASSERT((uint64_t) slot + 257 <= au.tables_size, "the state's 257-entry window lies inside the accounted table size");
  VF_ASSERT(a->buffers[YR_AC_TRANSITION_TABLE].used == (size_t) au.tables_size * sizeof(YR_AC_TRANSITION),
            "the arena's used size covers every entry of the table (only `used` bytes are written by yr_rules_save)");
  VF_WITNESS("end");
  return 0;
}
