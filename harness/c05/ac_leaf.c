/* C05.H3/H4 - leaf functions of the Aho-Corasick builder (ahocorasick.c) that decide which failure links and table
 * slots are shared between strings of different rules:
 *  VF_MODE=1  _yr_ac_transitions_subset(s1, s2) on two ARBITRARY child lists (<= 3 children each, any input bytes):
 *             true iff every input byte of s2's children is an input byte of one of s1's children.  (When it wrongly
 *             answers true, _yr_ac_optimize_failure_links drops a needed failure link and occurrences are missed.)
 *  VF_MODE=2  transition encoding: YR_AC_MAKE_TRANSITION / YR_AC_NEXT_STATE / YR_AC_INVALID_TRANSITION are inverse
 *             for every state < 2^23 and every input code 0..256.
 */
#include "vf.h"
#include <assert.h>
#include <string.h>
#include <yara/types.h>
#include <yara/ahocorasick.h>
#include <yara/error.h>
#include <yara/mem.h>
#if VF_MODE == 1
#include "ahocorasick.c"
#endif

int main(void)
{
#if VF_MODE == 1
  static YR_AC_STATE s1, s2, c1[3], c2[3];
  memset(&s1, 0, sizeof(s1)); memset(&s2, 0, sizeof(s2));
  memset(c1, 0, sizeof(c1)); memset(c2, 0, sizeof(c2));
  int n1 = (int) vf_range(0, 3), n2 = (int) vf_range(0, 3);
  for (int i = 0; i < 3; i++)
  {
    c1[i].input = vf_u8();
    c2[i].input = vf_u8();
    c1[i].siblings = (i + 1 < n1) ? &c1[i + 1] : NULL;
    c2[i].siblings = (i + 1 < n2) ? &c2[i + 1] : NULL;
  }
  s1.first_child = n1 ? &c1[0] : NULL;
  s2.first_child = n2 ? &c2[0] : NULL;
  bool got = _yr_ac_transitions_subset(&s1, &s2);
  bool want = true;
  for (int j = 0; j < 3; j++)
  {
    if (j >= n2) break;
    bool in = false;
    for (int i = 0; i < 3; i++) if (i < n1 && c1[i].input == c2[j].input) in = true;
    if (!in) want = false;
  }
  VF_ASSERT(got == want, "transitions of s2 are a subset of those of s1 exactly when every input byte of s2's children is one of s1's");
#else
  uint32_t state = vf_u32(), code = vf_range(0, 256);
  VF_ASSUME(state < (1u << 23));
  YR_AC_TRANSITION t = YR_AC_MAKE_TRANSITION(state, code);
  VF_ASSERT(YR_AC_NEXT_STATE(t) == state, "the next state is recovered from an encoded transition");
  VF_ASSERT(!YR_AC_INVALID_TRANSITION(t, code), "a transition is valid for the input code it was made for");
  uint32_t other = vf_range(0, 256);
  if (other != code) VF_ASSERT(YR_AC_INVALID_TRANSITION(t, other), "and invalid for every other input code (slot ownership check)");
#endif
  VF_WITNESS("end");
  return 0;
}
