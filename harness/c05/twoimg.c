/* C05.H1 - 2-safety: the matches of rule r's string on a buffer are the same whether r was compiled alone (image A_)
 * or together with companion rules whose strings share atoms / prefixes / suffixes with it (image B_), i.e. whatever
 * the shared Aho-Corasick automaton (failure links, appended match lists, interleaved transition table) looks like.
 * Real code: _yr_scanner_scan_mem_block + scan.c on both images (compiled by the real compiler each run).
 * Symbolic: the buffer (bytes and length).  T_A_IDX / T_B_IDX: index of r's string in each image.
 */
#include "common/scan_env.h"
#include "mem.c"
#include "strutils.c"
#include "scan.c"
#include "scanner.c"
#include "img_a.h"
#include "img_b.h"
#include "tmpl.h"

#ifndef VF_N
#define VF_N 5
#endif
#define MAXS 4
static YR_SCANNER scA, scB;
static YR_MATCHES mA[MAXS], uA[MAXS], mB[MAXS], uB[MAXS];
static YR_BITMASK bmA[4], bmB[4];
static int vf_cb(YR_SCAN_CONTEXT* c, int msg, void* data, void* ud) { return CALLBACK_CONTINUE; }

static void init(YR_SCANNER* s, YR_RULES* r, YR_MATCHES* m, YR_MATCHES* u, YR_BITMASK* bm)
{
  memset(s, 0, sizeof(*s));
  s->rules = r;
  s->flags = SCAN_FLAGS_NO_TRYCATCH;
  s->callback = vf_cb;
  s->matches = m;
  s->unconfirmed_matches = u;
  s->rule_matches_flags = &bm[0];
  s->ns_unsatisfied_flags = &bm[1];
  s->required_eval = &bm[2];
  s->strings_temp_disabled = &bm[3];
  yr_notebook_create(0, &s->matches_notebook);
}

int main(void)
{
  static uint8_t buf[VF_N];
  vf_init_tables();
  A_init();
  B_init();
  size_t n = vf_range(0, VF_N);
  vf_fill(buf, VF_N);
  init(&scA, &A_rules_obj, mA, uA, bmA);
  init(&scB, &B_rules_obj, mB, uB, bmB);
  YR_MEMORY_BLOCK block;
  block.size = n; block.base = 0; block.context = buf; block.fetch_data = NULL;
  int rA = _yr_scanner_scan_mem_block(&scA, buf, &block);
  int rB = _yr_scanner_scan_mem_block(&scB, buf, &block);
  VF_ASSERT(rA == ERROR_SUCCESS && rB == ERROR_SUCCESS, "both scans succeed");
  YR_MATCH* a = mA[T_A_IDX].head;
  YR_MATCH* b = mB[T_B_IDX].head;
  for (int i = 0; i <= VF_N; i++)
  {
    VF_ASSERT((a == NULL) == (b == NULL), "the rule's string has the same number of matches alone and with companions");
    if (a == NULL || b == NULL) break;
    VF_ASSERT(a->offset == b->offset && a->match_length == b->match_length && a->base == b->base, "same match offsets and lengths alone and with companions");
    a = a->next;
    b = b->next;
  }
  VF_ASSERT(mA[T_A_IDX].count == mB[T_B_IDX].count, "same match count");
  VF_ASSERT(((bmA[2] >> T_A_RULE) & 1) == ((bmB[2] >> T_B_RULE) & 1), "the rule is marked for evaluation in both or in neither");
  VF_WITNESS("end");
  return 0;
}
