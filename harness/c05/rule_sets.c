/* C05.H6 - rule-set wildcards ("N of (prefix*)") only see rules of the CURRENT namespace:
 * the real yr_parser_emit_pushes_for_rules (parser.c) on a compiler holding 3 rules spread over 2 namespaces
 * (identifiers 1..2 characters over {x,y}, namespaces, current namespace and the wildcard prefix all symbolic),
 * real hash.c for the rules table, real code emission (yr_parser_emit_with_arg into the arena's code section), decoded afterwards.
 * Oracle: the rules pushed are exactly the already-declared rules whose identifier starts with the prefix AND that
 * live in the namespace being compiled - so adding rules to another namespace never changes this rule's verdict.
 */
#include "vf.h"
#include <assert.h>
#include <string.h>
#include <stdlib.h>
#include <yara/types.h>
#include <yara/compiler.h>
#include <yara/parser.h>
#include <yara/hash.h>
#include <yara/error.h>
#include <yara/exec.h>
#include "mem.c"
#include "arena.c"
#include "hash.c"
#include "strutils.c"

static YR_COMPILER comp;
YR_COMPILER* yara_yyget_extra(yyscan_t s) { return &comp; }
void yara_yyerror(yyscan_t s, YR_COMPILER* c, const char* m) {}
void yara_yywarning(yyscan_t s, const char* fmt, ...) {}
#include "parser.c"
static int pushed[4], npushed;

#define NR 3
static YR_RULE rules[NR];
static YR_NAMESPACE nss[2];
static char ids[NR][3];
static char nsname[2][2] = {"a", "b"};
static YR_ARENA arena;

int main(void)
{
  int rns[NR];
  nss[0].name = nsname[0]; nss[0].idx = 0;
  nss[1].name = nsname[1]; nss[1].idx = 1;
  int rc = yr_hash_table_create(4, &comp.rules_table);
  VF_ASSUME(rc == ERROR_SUCCESS);
  for (int i = 0; i < NR; i++)
  {
    int len = (int) vf_range(1, 2);
    ids[i][0] = (char) ('x' + (vf_u8() & 1));
    ids[i][1] = len == 2 ? (char) ('x' + (vf_u8() & 1)) : 0;
    ids[i][2] = 0;
    rns[i] = vf_u8() & 1;
    rules[i].identifier = ids[i];
    rules[i].ns = &nss[rns[i]];
    /* rule identifiers are unique inside a namespace (the compiler rejects duplicates) */
    for (int j = 0; j < i; j++) VF_ASSUME(rns[j] != rns[i] || strcmp(ids[j], ids[i]) != 0);
    rc = yr_hash_table_add_uint32(comp.rules_table, ids[i], nss[rns[i]].name, (uint32_t) i);
    VF_ASSUME(rc == ERROR_SUCCESS);
  }
  arena.num_buffers = YR_NUM_SECTIONS;
  arena.buffers[YR_NAMESPACES_TABLE].data = (uint8_t*) nss;
  arena.buffers[YR_NAMESPACES_TABLE].size = arena.buffers[YR_NAMESPACES_TABLE].used = sizeof(nss);
  arena.buffers[YR_RULES_TABLE].data = (uint8_t*) rules;
  arena.buffers[YR_RULES_TABLE].size = arena.buffers[YR_RULES_TABLE].used = sizeof(rules);
  arena.initial_buffer_size = 64;
  comp.arena = &arena;
  comp.current_rule_idx = NR - 1;                 /* the rule being compiled is the last one */
  comp.current_namespace_idx = rns[NR - 1];
  char prefix[2] = {(char) ('x' + (vf_u8() & 1)), 0};
  int count = -1;
  int r = yr_parser_emit_pushes_for_rules(NULL, prefix, &count);
  /* decode what was emitted: OP_PUSH_RULE <uint64 rule index> per referenced rule */
  {
    YR_ARENA_BUFFER* cb = &arena.buffers[YR_CODE_SECTION];
    VF_ASSERT(cb->used % 9 == 0 && cb->used <= 27, "only rule pushes are emitted");
    for (size_t o = 0; o < 27; o += 9)
    {
      if (o >= cb->used) break;
      VF_ASSERT(cb->data[o] == OP_PUSH_RULE, "only rule pushes are emitted");
      uint64_t idx;
      memcpy(&idx, cb->data + o + 1, 8);
      pushed[npushed++] = (int) idx;
    }
  }
  int want[NR], nwant = 0;
  for (int i = 0; i < NR; i++)
  {
    want[i] = ids[i][0] == prefix[0] && rns[i] == rns[NR - 1];
    nwant += want[i];
  }
  VF_ASSERT((r == ERROR_SUCCESS) == (nwant > 0), "the wildcard resolves iff some rule of the current namespace matches it");
  VF_ASSERT(count == nwant && npushed == nwant, "exactly the matching rules of the current namespace are referenced");
  int k = 0;
  for (int i = 0; i < NR; i++)
    if (want[i]) { VF_ASSERT(k < 4 && pushed[k < 4 ? k : 0] == i, "rules of other namespaces are never pulled into a rule set"); k++; }
  VF_WITNESS("end");
  return 0;
}
