/* C05.H7 - _yr_ac_optimize_failure_links (ahocorasick.c): "failure-link optimisation only when transition sets are
 * subsets".  With several strings of different rules in one automaton, a state's failure chain runs through states
 * created by OTHER strings; dropping a link that is still needed makes a string of one rule disappear when another
 * rule is compiled with it.
 * Automaton: 6 states  root -> A -> B -> D,  root -> C -> E  (the shape of three overlapping strings), every input
 * byte symbolic (siblings distinct), every failure link symbolic among the strictly shallower states (which is all
 * the function may rely on: failure links point to shorter suffixes).
 * Oracle: the goto function of the automaton - from state s on byte b follow failure links until a state with a
 * transition on b (or the root) - is the SAME before and after the optimisation, for an arbitrary s and b; every new
 * failure link lies on the state's old failure chain.
 */
#include "vf.h"
#include <assert.h>
#include <string.h>
#include <stdlib.h>
#include <yara/types.h>
#include <yara/ahocorasick.h>
#include <yara/error.h>
#include <yara/mem.h>
#include "mem.c"
#include "ahocorasick.c"

#define NS 6
static YR_AC_STATE st[NS]; /* 0 root, 1 A, 2 C, 3 B, 4 E, 5 D */
static const int parent[NS] = {-1, 0, 0, 1, 2, 3};
static const int depth[NS] = {0, 1, 1, 2, 2, 3};
static int fail_before[NS];

static int child_on(int s, uint8_t b)
{
  for (int c = 1; c < NS; c++)
    if (parent[c] == s && st[c].input == b) return c;
  return -1;
}
static int idx_of(YR_AC_STATE* p)
{
  for (int i = 0; i < NS; i++) if (p == &st[i]) return i;
  return -1;
}
/* goto function with explicit failure array */
static int next_state(const int* fail, int s, uint8_t b)
{
  for (int k = 0; k < NS; k++)
  {
    int c = child_on(s, b);
    if (c >= 0) return c;
    if (s == 0) return 0;
    s = fail[s];
  }
  return -2;
}

int main(void)
{
  YR_AC_AUTOMATON au;
  memset(&au, 0, sizeof(au));
  for (int i = 0; i < NS; i++)
  {
    st[i].depth = depth[i];
    st[i].input = vf_u8();
    st[i].first_child = NULL;
    st[i].siblings = NULL;
    st[i].failure = NULL;
  }
  /* tree links: root's children A, C are siblings */
  st[0].first_child = &st[1]; st[1].siblings = &st[2];
  st[1].first_child = &st[3]; st[2].first_child = &st[4]; st[3].first_child = &st[5];
  VF_ASSUME(st[1].input != st[2].input);
  st[0].failure = &st[0];
  for (int i = 1; i < NS; i++)
  {
    int f = (int) vf_range(0, NS - 1);
    VF_ASSUME(depth[f] < depth[i]);
    fail_before[i] = f;
    st[i].failure = &st[f];
  }
  fail_before[0] = 0;
  au.root = &st[0];

  int s = (int) vf_range(0, NS - 1);
  uint8_t b = vf_u8();
  int want = next_state(fail_before, s, b);

  int r = _yr_ac_optimize_failure_links(&au);
  VF_ASSERT(r == ERROR_SUCCESS, "optimisation succeeds");

  int fail_after[NS];
  for (int i = 0; i < NS; i++)
  {
    fail_after[i] = idx_of(st[i].failure);
    VF_ASSERT(fail_after[i] >= 0, "failure links stay inside the automaton");
    if (i > 0)
    {
      /* on the old chain */
      int g = fail_before[i], on_chain = 0;
      for (int k = 0; k < NS; k++)
      {
        if (g == fail_after[i]) on_chain = 1;
        if (g == 0) break;
        g = fail_before[g];
      }
      VF_ASSERT(on_chain, "a new failure link is a state of the old failure chain");
    }
  }
  int got = next_state(fail_after, s, b);
  VF_ASSERT(got == want, "the automaton's goto function is unchanged by the failure-link optimisation (no string of another rule is lost)");
  VF_WITNESS("end");
  return 0;
}
