/* vf.h - common harness prelude for the /verif CBMC harnesses.
 *
 * Two compilation modes of the SAME harness source:
 *   - under goto-cc/cbmc (default): vf_u8()/vf_u16()/vf_u32()/vf_u64() return
 *     nondeterministic values; VF_ASSERT is __CPROVER_assert; VF_ASSUME is
 *     __CPROVER_assume.
 *   - -DVF_REPLAY (gcc/clang + ASan/UBSan): the vf_* functions return the
 *     values the solver chose (vf_replay_vals[], written by vf/replay.py from
 *     the CBMC trace, in call order); VF_ASSERT prints and exits 42.
 * Every symbolic input of a harness MUST be drawn through vf_* so that the
 * counterexample can be replayed against the natively compiled real code.
 */
#ifndef VF_H
#define VF_H

#include <stdint.h>
#include <stddef.h>
#include <stdbool.h>

#ifdef VF_REPLAY
#include <stdio.h>
#include <stdlib.h>
extern const uint64_t vf_replay_vals[];
extern const unsigned vf_replay_n;
static unsigned vf_replay_i;
static uint64_t vf_next(void)
{
  return vf_replay_i < vf_replay_n ? vf_replay_vals[vf_replay_i++] : 0;
}
static uint8_t vf_u8(void) { return (uint8_t) vf_next(); }
static uint16_t vf_u16(void) { return (uint16_t) vf_next(); }
static uint32_t vf_u32(void) { return (uint32_t) vf_next(); }
static uint64_t vf_u64(void) { return (uint64_t) vf_next(); }
#define VF_ASSERT(c, msg)                                  \
  do                                                       \
  {                                                        \
    if (!(c))                                              \
    {                                                      \
      fprintf(stderr, "VF_ASSERT_FAILED: %s\n", msg);      \
      fflush(stderr);                                      \
      _Exit(42);                                           \
    }                                                      \
  } while (0)
#define VF_ASSUME(c)                                       \
  do                                                       \
  {                                                        \
    if (!(c))                                              \
    {                                                      \
      fprintf(stderr, "VF_ASSUME_FALSE: %s\n", #c);        \
      fflush(stderr);                                      \
      _Exit(3);                                            \
    }                                                      \
  } while (0)
#define VF_WITNESS(tag) \
  do                    \
  {                     \
  } while (0)
#define __CPROVER_assume(c) VF_ASSUME(c)
#define __CPROVER_assert(c, m) VF_ASSERT(c, m)
#else
uint8_t nondet_uint8(void);
uint16_t nondet_uint16(void);
uint32_t nondet_uint32(void);
uint64_t nondet_uint64(void);
static uint8_t vf_u8(void)
{
  uint8_t v = nondet_uint8();
  return v;
}
static uint16_t vf_u16(void)
{
  uint16_t v = nondet_uint16();
  return v;
}
static uint32_t vf_u32(void)
{
  uint32_t v = nondet_uint32();
  return v;
}
static uint64_t vf_u64(void)
{
  uint64_t v = nondet_uint64();
  return v;
}
#define VF_ASSERT(c, msg) __CPROVER_assert((c), "VF: " msg)
#define VF_ASSUME(c) __CPROVER_assume(c)
/* Reachability witness: this assertion MUST come back FAILED, otherwise the
   harness is vacuous (unsatisfiable assumes or unreachable end). */
#define VF_WITNESS(tag) __CPROVER_assert(0, "VF_WITNESS " tag)
#endif

static inline bool vf_bool(void) { return (vf_u8() & 1) != 0; }
static inline int64_t vf_i64(void) { return (int64_t) vf_u64(); }
static inline int32_t vf_i32(void) { return (int32_t) vf_u32(); }
/* value in [lo,hi] (inclusive) */
static inline uint32_t vf_range(uint32_t lo, uint32_t hi)
{
  uint32_t v = vf_u32();
  VF_ASSUME(v >= lo && v <= hi);
  return v;
}
static inline void vf_fill(uint8_t* p, size_t n)
{
  for (size_t i = 0; i < n; i++) p[i] = vf_u8();
}

#endif
