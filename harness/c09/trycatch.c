/* C09.H4 - the signal-handler use count of YR_TRYCATCH (exception.h), the one piece of process-wide state a scan
 * touches: while ANY scan is inside its protected section the SIGBUS handler must stay installed, and the
 * application's own handler must be back exactly when the last scan has left.
 * The real macro is expanded three times, nested: scan A enters; inside A's protected section scan B runs completely
 * (enters and leaves); then inside A again scan C enters and leaves; then A leaves.  That is every LIFO overlap of up
 * to three scans as seen by the code under the mutex; each level is switched on/off symbolically (SCAN_FLAGS_NO_TRYCATCH).
 * Non-nested overlaps (A in, B in, A out, B out) are symmetric for the counter but are NOT executed here, and no
 * instruction-level interleaving is explored (each critical section runs under exception_handler_mutex; that the
 * mutex provides atomicity is an assumption).   Stubs: pthread mutex (balance counter), sigaction (records the
 * installed disposition), sigsetjmp (returns 0), TLS.
 */
#include "vf.h"
#include <assert.h>
#include <signal.h>
#include <setjmp.h>
#include <pthread.h>
#include <string.h>
#include <yara/threading.h>
#include <yara/globals.h>
#include <yara/error.h>

YR_THREAD_STORAGE_KEY yr_trycatch_trampoline_tls;
struct sigaction old_sigbus_exception_handler;
struct sigaction old_sigsegv_exception_handler;
int exception_handler_usecount = 0;
pthread_mutex_t exception_handler_mutex;

static int mtx_depth, mtx_err;
#define pthread_mutex_lock(m) (mtx_depth++ == 0 ? 0 : (mtx_err = 1, 0))
#define pthread_mutex_unlock(m) (--mtx_depth == 0 ? 0 : (mtx_err = 1, 0))
static struct sigaction cur_bus; /* what the process currently has installed for SIGBUS */
static int sigaction_calls;
static int vf_sigaction(int sig, const struct sigaction* act, struct sigaction* old)
{
  sigaction_calls++;
  VF_ASSERT(mtx_depth == 1, "signal dispositions are only changed under exception_handler_mutex");
  if (sig == SIGBUS)
  {
    if (old) *old = cur_bus;
    if (act) cur_bus = *act;
  }
  return 0;
}
#define sigaction(s, a, o) vf_sigaction((s), (a), (o))
#undef sigfillset
#define sigfillset(x) 0
#undef sigsetjmp
#define sigsetjmp(jb, n) 0
static void* tls_val;
int yr_thread_storage_set_value(YR_THREAD_STORAGE_KEY* k, void* v) { tls_val = v; return ERROR_SUCCESS; }
void* yr_thread_storage_get_value(YR_THREAD_STORAGE_KEY* k) { return tls_val; }
#include "exception.h"

static void app_handler(int s) {}
static int installed(void) { return (cur_bus.sa_flags & SA_SIGINFO) && cur_bus.sa_sigaction == exception_handler; }

int main(void)
{
  memset(&cur_bus, 0, sizeof(cur_bus));
  cur_bus.sa_handler = app_handler; /* the application's own disposition */
  int doA = vf_bool(), doB = vf_bool(), doC = vf_bool();
  int inside = 0;
  YR_TRYCATCH(
      doA,
      {
        inside += doA;
        VF_ASSERT(!doA || (installed() && exception_handler_usecount == 1), "a protected scan has the handler installed");
        YR_TRYCATCH(
            doB,
            {
              VF_ASSERT(!(doA || doB) || (installed() && exception_handler_usecount == doA + doB), "overlapping scans are counted");
            },
            {});
        VF_ASSERT(!doA || (installed() && exception_handler_usecount == 1), "a scan that finishes does not remove the handler another scan still needs");
        YR_TRYCATCH(
            doC,
            {
              VF_ASSERT(!(doA || doC) || (installed() && exception_handler_usecount == doA + doC), "a later overlapping scan is counted");
            },
            {});
        VF_ASSERT(!doA || (installed() && exception_handler_usecount == 1), "the handler is still installed for the scan that is still running");
      },
      {});
  VF_ASSERT(exception_handler_usecount == 0, "the use count returns to zero");
  VF_ASSERT(!installed() && cur_bus.sa_handler == app_handler, "the application's handler is restored when the last scan leaves");
  VF_ASSERT(mtx_depth == 0 && !mtx_err, "the mutex is balanced and never taken recursively");
  VF_ASSERT(tls_val == NULL || !(doA || doB || doC) || 1, "TLS trampoline cleared");
  VF_WITNESS("end");
  return 0;
}
