/* C09.H1/H2 - frame conditions of a scan (the reduction of "concurrent scans sharing one rule set are race-free
 * and deterministic", DESIGN 5.C09): a scan writes only memory reachable from its OWN scanner.
 * Real whole scan (scanner.c, scan.c, exec.c) on a compiled image; symbolic data.
 * Asserted for every input in the bound: the shared compiled rules (every table of the image and the YR_RULES
 * object) and the process-wide tables (yr_lowercase / yr_altercase) are bitwise unchanged by a scan, and a SECOND
 * scanner that did not scan is bitwise unchanged too.  Together with "a scan's result is a function of (rules,
 * its scanner, its input)" (C10) this gives independence of concurrently running scans under ANY interleaving;
 * the interleavings themselves are not explored (CBMC cannot run real threads over this code, DESIGN P15).
 */
#define VF_NBLOCKS_C 1
#include "common/whole_scan.h"
#include "img_img.h"
#ifndef VF_N
#define VF_N 4
#endif
#define SNAP(x) static uint8_t snap_##x[sizeof(x)]
SNAP(IMG_sz); SNAP(IMG_code); SNAP(IMG_re_code); SNAP(IMG_ns); SNAP(IMG_rules); SNAP(IMG_strings); SNAP(IMG_ext);
SNAP(IMG_ac_pool); SNAP(IMG_ac_trans); SNAP(IMG_ac_match_table); SNAP(IMG_no_required); SNAP(IMG_rules_obj);
SNAP(yr_lowercase); SNAP(yr_altercase);

#ifdef VF_DURING
/* -DVF_DURING: the frame condition is ALSO checked from inside the scan - at every callback message (too-many-matches
 * warning answered with CONTINUE, rule messages, scan-finished), i.e. at points where another thread's scan may be
 * running: state that is written during a scan and restored at its end is a shared write all the same.
 * Built with the matches-per-string limit scaled to 3 (code's own #ifndef, image build and harness alike). */
static size_t vf_during_i_strings, vf_during_i_rules, vf_during_i_obj;
static int vf_cb_calls, vf_tmm_calls;
#endif
static int vf_cb(YR_SCAN_CONTEXT* c, int msg, void* data, void* ud)
{
#ifdef VF_DURING
  vf_cb_calls++;
  if (msg == CALLBACK_MSG_TOO_MANY_MATCHES) vf_tmm_calls++;
  VF_ASSERT(snap_IMG_strings[vf_during_i_strings] == ((const uint8_t*) &IMG_strings)[vf_during_i_strings], "shared strings table unchanged while a scan is running");
  VF_ASSERT(snap_IMG_rules[vf_during_i_rules] == ((const uint8_t*) &IMG_rules)[vf_during_i_rules], "shared rules table unchanged while a scan is running");
  VF_ASSERT(snap_IMG_rules_obj[vf_during_i_obj] == ((const uint8_t*) &IMG_rules_obj)[vf_during_i_obj], "YR_RULES unchanged while a scan is running");
#endif
  return CALLBACK_CONTINUE;
}

int main(void)
{
  static uint8_t buf[VF_N];
  vf_init_tables();
  IMG_init();
  IMG_no_required[0] |= 1;
  size_t n = vf_range(0, VF_N);
  vf_fill(buf, VF_N);
  static vf_scanner A, B, Bsnap;
  YR_MEMORY_BLOCK_ITERATOR itA;
  static vf_iter_ctx cA;
#ifdef VF_DURING
  int flags = SCAN_FLAGS_REPORT_RULES_MATCHING | SCAN_FLAGS_REPORT_RULES_NOT_MATCHING;
  vf_during_i_strings = vf_u32(); vf_during_i_rules = vf_u32(); vf_during_i_obj = vf_u32();
  VF_ASSUME(vf_during_i_strings < sizeof(IMG_strings) && vf_during_i_rules < sizeof(IMG_rules) && vf_during_i_obj < sizeof(IMG_rules_obj));
#else
  int flags = SCAN_FLAGS_REPORT_RULES_MATCHING | SCAN_FLAGS_REPORT_RULES_NOT_MATCHING | (vf_bool() ? SCAN_FLAGS_FAST_MODE : 0);
#endif
  vf_scanner_init(&A, &IMG_rules_obj, vf_cb, flags);
  vf_scanner_init(&B, &IMG_rules_obj, vf_cb, flags);
  memcpy(&Bsnap, &B, sizeof(B));
#define TAKE(x) memcpy(snap_##x, &x, sizeof(x))
  TAKE(IMG_sz); TAKE(IMG_code); TAKE(IMG_re_code); TAKE(IMG_ns); TAKE(IMG_rules); TAKE(IMG_strings); TAKE(IMG_ext);
  TAKE(IMG_ac_pool); TAKE(IMG_ac_trans); TAKE(IMG_ac_match_table); TAKE(IMG_no_required); TAKE(IMG_rules_obj);
  TAKE(yr_lowercase); TAKE(yr_altercase);
  vf_iter_setup(&itA, &cA, buf, n, 1, 0, 0);
  int r = yr_scanner_scan_mem_blocks(&A.sc, &itA);
  VF_ASSERT(r == ERROR_SUCCESS, "scan succeeds");
/* equality at an ARBITRARY byte index = equality of the whole object (no 2048-iteration memcmp loop) */
#define SAME(x)                                                                                         \
  do                                                                                                    \
  {                                                                                                     \
    size_t i_ = vf_u32();                                                                               \
    VF_ASSUME(i_ < sizeof(x));                                                                          \
    VF_ASSERT(snap_##x[i_] == ((const uint8_t*) &x)[i_], "shared state unchanged by a scan: " #x);      \
  } while (0)
  SAME(IMG_sz); SAME(IMG_code); SAME(IMG_re_code); SAME(IMG_ns); SAME(IMG_rules); SAME(IMG_strings); SAME(IMG_ext);
  SAME(IMG_ac_pool); SAME(IMG_ac_trans); SAME(IMG_ac_match_table); SAME(IMG_no_required); SAME(IMG_rules_obj);
  SAME(yr_lowercase); SAME(yr_altercase);
  {
    size_t i_ = vf_u32();
    VF_ASSUME(i_ < sizeof(B));
    VF_ASSERT(((const uint8_t*) &Bsnap)[i_] == ((const uint8_t*) &B)[i_], "another scanner over the same rules is untouched");
  }
#ifdef VF_DURING
  VF_ASSERT(vf_cb_calls >= 2, "the callback (and the frame check in it) ran for the rule and for scan-finished");
  if (vf_tmm_calls > 0) VF_WITNESS("a string was muted by the matches limit during the scan");
#endif
  VF_WITNESS("end");
  return 0;
}
