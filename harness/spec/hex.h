/* spec/hex.h - reference semantics of hex strings without alternatives (docs/writingrules.rst, "Hexadecimal strings"):
 * a sequence of tokens, each   byte  XX | wildcards ?? ?X X? (value/mask) | negation ~XX ~?X (value/mask) | jump [a-b]
 * The pattern matches data[p .. p+L) iff the tokens can consume exactly L bytes in order; a jump consumes any a..b bytes.
 * T_tok[] comes from the generated template header.  sp_hex_lengths returns the set of legal L as a bitmask (bit L).
 */
#ifndef VF_SPEC_HEX_H
#define VF_SPEC_HEX_H
#include <stdint.h>
typedef struct { uint8_t kind; uint8_t value; uint8_t mask; uint16_t lo; uint16_t hi; } sp_tok; /* kind 0 byte/mask, 1 negated, 2 jump */
static uint32_t sp_hex_lengths(const sp_tok* t, int nt, const uint8_t* d, unsigned avail)
{
  uint32_t cur = 1u; /* set of consumed lengths reachable before token i */
  for (int i = 0; i < nt; i++)
  {
    uint32_t nxt = 0;
    for (unsigned L = 0; L <= avail && L < 31; L++)
    {
      if (!((cur >> L) & 1u)) continue;
      if (t[i].kind == 2)
      {
        for (unsigned j = t[i].lo; j <= t[i].hi; j++)
          if (L + j <= avail && L + j < 31) nxt |= 1u << (L + j);
      }
      else if (L < avail)
      {
        int eq = (d[L] & t[i].mask) == t[i].value;
        if (t[i].kind == 0 ? eq : !eq) nxt |= 1u << (L + 1);
      }
    }
    cur = nxt;
  }
  return cur;
}
#endif
