/* spec/text.h - reference occurrence predicate for text strings, written from
 * docs/writingrules.rst ("Text strings", modifiers ascii/wide/nocase/fullword/xor):
 *   ascii     : the bytes of the string
 *   wide      : each byte followed by 0x00
 *   nocase    : A-Z and a-z compare equal (both forms)
 *   xor(a-b)  : every byte of the (ascii or wide) form XORed with one key k, a<=k<=b
 *   fullword  : the occurrence is not preceded nor followed by an alphanumeric
 *               character (for the wide form: by an alphanumeric UTF-16LE unit, i.e. alnum byte + 0x00)
 * T_* macros come from the generated template header.
 */
#ifndef VF_SPEC_TEXT_H
#define VF_SPEC_TEXT_H
#include <stdint.h>
static int sp_alnum(uint8_t c) { return (c >= '0' && c <= '9') || (c >= 'a' && c <= 'z') || (c >= 'A' && c <= 'Z'); }
static uint8_t sp_lower(uint8_t c) { return (c >= 'A' && c <= 'Z') ? (uint8_t) (c + 32) : c; }
static int sp_ceq(uint8_t a, uint8_t b, int nocase) { return nocase ? sp_lower(a) == sp_lower(b) : a == b; }

/* does the ascii form of s[0..len) occur at buf[off..] with xor key k ? */
static int sp_ascii_at(const uint8_t* buf, size_t n, size_t off, const uint8_t* s, int len, int nocase, uint8_t k)
{
  if (off + (size_t) len > n) return 0;
  for (int i = 0; i < len; i++)
    if (!sp_ceq(buf[off + i] ^ k, s[i], nocase)) return 0;
  return 1;
}
static int sp_wide_at(const uint8_t* buf, size_t n, size_t off, const uint8_t* s, int len, int nocase, uint8_t k)
{
  if (off + 2 * (size_t) len > n) return 0;
  for (int i = 0; i < len; i++)
  {
    if (!sp_ceq(buf[off + 2 * i] ^ k, s[i], nocase)) return 0;
    if ((buf[off + 2 * i + 1] ^ k) != 0) return 0;
  }
  return 1;
}
static int sp_fullword_ascii(const uint8_t* buf, size_t n, size_t off, size_t mlen)
{
  if (off >= 1 && sp_alnum(buf[off - 1])) return 0;
  if (off + mlen < n && sp_alnum(buf[off + mlen])) return 0;
  return 1;
}
static int sp_fullword_wide(const uint8_t* buf, size_t n, size_t off, size_t mlen)
{
  if (off >= 2 && buf[off - 1] == 0 && sp_alnum(buf[off - 2])) return 0;
  if (off + mlen + 1 < n && buf[off + mlen + 1] == 0 && sp_alnum(buf[off + mlen])) return 0;
  return 1;
}
#endif
