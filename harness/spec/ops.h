/* spec/ops.h - reference semantics of the YARA condition operators, written
 * from docs/writingrules.rst (not from exec.c):
 *  - integers are 64-bit signed; + - * wrap (two's complement) [the manual is
 *    silent on overflow; wrap is what every supported build does and what the
 *    compile-time folder accepts/rejects is checked separately in C12]
 *  - "\" truncates toward zero; "\" and "%" by zero are undefined; so is
 *    INT64_MIN \ -1 and INT64_MIN % -1 (no representable result / trap)
 *  - "<<" ">>": negative count => undefined, count >= 64 => 0, ">>" is
 *    arithmetic on the signed value
 *  - every operator except and/or/defined yields undefined if an operand is
 *    undefined; and/or treat undefined as false
 *  - "not undefined" is undefined; "defined x" is never undefined
 */
#ifndef VF_SPEC_OPS_H
#define VF_SPEC_OPS_H
#include <stdint.h>
#define SPEC_UNDEF 0xFFFABADAFABADAFFULL

typedef struct { int undef; uint64_t v; } spec_val;
static spec_val SV(uint64_t v) { spec_val s = {0, v}; return s; }
static spec_val SU(void) { spec_val s = {1, 0}; return s; }
static int sp_is_undef(uint64_t raw) { return raw == SPEC_UNDEF; }

static spec_val spec_int_bin(int op, uint64_t a, uint64_t b)
{
  int64_t sa = (int64_t) a, sb = (int64_t) b;
  switch (op)
  {
  case OP_AND: return SV((sp_is_undef(a) ? 0 : a != 0) && (sp_is_undef(b) ? 0 : b != 0));
  case OP_OR:  return SV((sp_is_undef(a) ? 0 : a != 0) || (sp_is_undef(b) ? 0 : b != 0));
  }
  if (sp_is_undef(a) || sp_is_undef(b)) return SU();
  switch (op)
  {
  case OP_INT_ADD: return SV(a + b);
  case OP_INT_SUB: return SV(a - b);
  case OP_INT_MUL: return SV(a * b);
  case OP_INT_DIV:
    if (sb == 0 || (sa == INT64_MIN && sb == -1)) return SU();
    return SV((uint64_t) (sa / sb));   /* C99 6.5.5: truncation toward zero */
  case OP_MOD:
    if (sb == 0 || (sa == INT64_MIN && sb == -1)) return SU();
    return SV((uint64_t) (sa % sb));   /* C99 6.5.5: (a/b)*b + a%b == a, sign of the dividend */
  case OP_BITWISE_AND: return SV(a & b);
  case OP_BITWISE_OR:  return SV(a | b);
  case OP_BITWISE_XOR: return SV(a ^ b);
  case OP_SHL:
    if (sb < 0) return SU();
    if (sb >= 64) return SV(0);
    return SV(a << sb);
  case OP_SHR:
    if (sb < 0) return SU();
    if (sb >= 64) return SV(0);
    {
      uint64_t r = a >> sb;
      if (sa < 0 && sb > 0) r |= ~(uint64_t) 0 << (64 - sb);   /* sign fill */
      return SV(r);
    }
  case OP_INT_EQ:  return SV(sa == sb);
  case OP_INT_NEQ: return SV(sa != sb);
  case OP_INT_LT:  return SV(sa < sb);
  case OP_INT_GT:  return SV(sa > sb);
  case OP_INT_LE:  return SV(sa <= sb);
  case OP_INT_GE:  return SV(sa >= sb);
  }
  return SU();
}

static spec_val spec_int_un(int op, uint64_t a)
{
  if (op == OP_DEFINED) return SV(!sp_is_undef(a));
  if (sp_is_undef(a)) return SU();
  switch (op)
  {
  case OP_NOT: return SV(a == 0);
  case OP_BITWISE_NOT: return SV(~a);
  case OP_INT_MINUS: return SV((uint64_t) 0 - a);
  }
  return SU();
}

static double sp_d(uint64_t raw) { double d; memcpy(&d, &raw, 8); return d; }
static uint64_t sp_raw(double d) { uint64_t r; memcpy(&r, &d, 8); return r; }

/* doubles: IEEE-754 binary64 arithmetic/comparison; result of comparison is 0/1 integer */
static spec_val spec_dbl_bin(int op, uint64_t a, uint64_t b)
{
  if (sp_is_undef(a) || sp_is_undef(b)) return SU();
  double da = sp_d(a), db = sp_d(b);
  switch (op)
  {
  case OP_DBL_ADD: return SV(sp_raw(da + db));
  case OP_DBL_SUB: return SV(sp_raw(da - db));
  case OP_DBL_MUL: return SV(sp_raw(da * db));
  case OP_DBL_DIV: return SV(sp_raw(da / db));
  case OP_DBL_EQ:  return SV(da == db);
  case OP_DBL_NEQ: return SV(da != db);
  case OP_DBL_LT:  return SV(da < db);
  case OP_DBL_GT:  return SV(da > db);
  case OP_DBL_LE:  return SV(da <= db);
  case OP_DBL_GE:  return SV(da >= db);
  }
  return SU();
}
#endif
