/* C19.H2 - a compile-time unit that stores arena pointers while the arena grows: yr_ac_add_string (ahocorasick.c)
 * called for three strings that share one atom, with the match pool's capacity at ONE entry and a realloc that always
 * moves - every allocation relocates the pool, so a pointer that is not registered for relocation (or a raw pointer
 * kept across the allocation) becomes a use-after-free that CBMC's pointer checks report.
 * Symbolic: atom bytes and length (1..2), backtrack values.
 * Post: the state's match list, resolved through the arena AFTER all growth, holds both matches, newest first, each
 * pointing to its own YR_STRING in the (current) strings table, `next` chaining inside the current pool buffer.
 */
#define VF_OBJ 512
#include "common/arena_env.h"
#include <yara/ahocorasick.h>
#include <yara/compiler.h>
#include <yara/atoms.h>
uint32_t yr_bitmask_find_non_colliding_offset(YR_BITMASK* a, YR_BITMASK* b, uint32_t len_a, uint32_t len_b, uint32_t* off_a) { return 0; }
#include "ahocorasick.c"

int main(void)
{
  YR_ARENA* a = NULL;
  int rc = yr_arena_create(YR_NUM_SECTIONS, sizeof(YR_AC_MATCH), &a); /* room for exactly one match: the 2nd add relocates */
  VF_ASSUME(rc == ERROR_SUCCESS);
  rc = yr_arena_allocate_zeroed_memory(a, YR_STRINGS_TABLE, 3 * sizeof(YR_STRING), NULL);
  VF_ASSUME(rc == ERROR_SUCCESS);
  YR_AC_AUTOMATON* au = NULL;
  rc = yr_ac_automaton_create(a, &au);
  VF_ASSUME(rc == ERROR_SUCCESS);
  static YR_ATOM_LIST_ITEM atom[3];
  uint8_t len = (uint8_t) vf_range(1, 2);
  uint8_t b0 = vf_u8(), b1 = vf_u8();
  for (int k = 0; k < 3; k++)
  {
    atom[k].atom.length = len;
    atom[k].atom.bytes[0] = b0; atom[k].atom.bytes[1] = b1;
    atom[k].atom.mask[0] = atom[k].atom.mask[1] = 0xFF;
    atom[k].backtrack = (uint16_t) vf_range(0, 3);
    atom[k].forward_code_ref = YR_ARENA_NULL_REF;
    atom[k].backward_code_ref = YR_ARENA_NULL_REF;
    atom[k].next = NULL;
  }
  YR_STRING* strings = (YR_STRING*) yr_arena_get_ptr(a, YR_STRINGS_TABLE, 0);
  rc = yr_ac_add_string(au, &strings[0], 0, &atom[0], a);
  VF_ASSERT(rc == ERROR_SUCCESS, "adding a string succeeds");
  rc = yr_ac_add_string(au, &strings[1], 1, &atom[1], a);
  VF_ASSERT(rc == ERROR_SUCCESS, "adding a second string with the same atom succeeds");
  strings = (YR_STRING*) yr_arena_get_ptr(a, YR_STRINGS_TABLE, 0);
  rc = yr_ac_add_string(au, &strings[2], 2, &atom[2], a);   /* relocates the pool once more, AFTER the 2nd match's pointers were stored */
  VF_ASSERT(rc == ERROR_SUCCESS, "adding a third string succeeds");
  /* resolve everything through the arena as it is NOW */
  YR_AC_STATE* st = au->root->first_child;
  VF_ASSERT(st != NULL && st->input == b0, "the automaton has a state for the atom's first byte");
  if (len == 2) { st = st->first_child; VF_ASSERT(st != NULL && st->input == b1, "and for its second byte"); }
  strings = (YR_STRING*) yr_arena_get_ptr(a, YR_STRINGS_TABLE, 0);
  YR_AC_MATCH* pool = (YR_AC_MATCH*) yr_arena_get_ptr(a, YR_AC_STATE_MATCHES_POOL, 0);
  YR_AC_MATCH* m = (YR_AC_MATCH*) yr_arena_ref_to_ptr(a, &st->matches_ref);
  VF_ASSERT(m == &pool[2], "the state's match list starts with the newest match, in the current pool buffer");
  VF_ASSERT(m->string == &strings[2] && m->backtrack == len + atom[2].backtrack, "the newest match belongs to the third string");
  VF_ASSERT(m->next == &pool[1], "its `next` pointer points into the current pool buffer");
  VF_ASSERT(pool[1].string == &strings[1] && pool[1].next == &pool[0], "pointers stored BEFORE the pool moved again were relocated with it (string, next)");
  VF_ASSERT(pool[0].string == &strings[0] && pool[0].backtrack == len + atom[0].backtrack && pool[0].next == NULL, "the first match is intact after the pool moved");
  VF_WITNESS("end");
  return 0;
}
