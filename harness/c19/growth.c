/* C19.H1 - one growth step of the arena from an arbitrary small state, realloc ALWAYS moves.
 * Real code: arena.c yr_arena_create / yr_arena_allocate_memory / yr_arena_allocate_zeroed_memory /
 * yr_arena_write_data / yr_arena_make_ptr_relocatable / yr_arena_get_ptr.
 * Symbolic: initial buffer capacity (1..16), sizes of the existing regions, byte contents, which slots are
 * registered and where they point (own buffer, other buffer, NULL), size of the new allocation (1..16),
 * which of the three public allocation entry points is used.
 * Post: old contents preserved, every registered pointer into the moved buffer retargeted by the same offset,
 * pointers to the other buffer untouched, returned ref = old `used`, new region zeroed / written as documented.
 */
#define VF_OBJ 128 /* >= the largest capacity the arena can believe it has here (2 * 40) */
#include "common/arena_env.h"

int main(void)
{
  YR_ARENA* a = NULL;
  size_t cap = vf_range(1, 16);
  int rc = yr_arena_create(2, cap, &a);
  VF_ASSUME(rc == ERROR_SUCCESS);
  uint32_t n0 = vf_range(16, 24), n1 = 8;
  YR_ARENA_REF r0, r1;
  /* usage discipline of the callers in /repo: a buffer is either always allocated zeroed (struct tables, AC
     tables) or never (SZ pool, code); "zeroed allocation is zero" is claimed under that discipline */
  int zero_discipline = vf_bool();
  rc = zero_discipline ? yr_arena_allocate_zeroed_memory(a, 0, n0, &r0) : yr_arena_allocate_memory(a, 0, n0, &r0);
  VF_ASSUME(rc == ERROR_SUCCESS);
  rc = yr_arena_allocate_memory(a, 1, n1, &r1);
  VF_ASSUME(rc == ERROR_SUCCESS);
  VF_ASSERT(r0.offset == 0 && r1.offset == 0 && a->buffers[0].used == n0, "first allocation starts at offset 0");
  static uint8_t snap[24];
  for (uint32_t i = 0; i < 24; i++)
  {
    if (i >= n0) break;
    a->buffers[0].data[i] = snap[i] = vf_u8();
  }
  /* slot A: buffer 1 offset 0 -> buffer 0 + tA ; slot B: buffer 0 offset 8 -> buffer kB + tB or NULL */
  uint32_t tA = vf_range(0, 15), tB = vf_range(0, 7);
  int regA = vf_bool(), regB = vf_bool(), nullB = vf_bool();
  uint32_t kB = vf_range(0, 1);
  void* pA = a->buffers[0].data + tA;
  void* pB = nullB ? NULL : (void*) (a->buffers[kB].data + tB);
  memcpy(a->buffers[1].data + 0, &pA, 8);
  memcpy(a->buffers[0].data + 8, &pB, 8);
  if (regA) { rc = yr_arena_make_ptr_relocatable(a, 1, (yr_arena_off_t) 0, EOL); VF_ASSUME(rc == ERROR_SUCCESS); }
  if (regB) { rc = yr_arena_make_ptr_relocatable(a, 0, (yr_arena_off_t) 8, EOL); VF_ASSUME(rc == ERROR_SUCCESS); }
  uint8_t* old0 = a->buffers[0].data;
  uint8_t* old1 = a->buffers[1].data;
  size_t oldsize = a->buffers[0].size;

  /* the growth step */
  uint32_t g = vf_range(1, 16);
  uint32_t which = vf_range(0, 2);
  static uint8_t src[16];
  vf_fill(src, 16);
  YR_ARENA_REF ref;
  if (which == 0) rc = yr_arena_allocate_memory(a, 0, g, &ref);
  else if (which == 1) rc = yr_arena_allocate_zeroed_memory(a, 0, g, &ref);
  else rc = yr_arena_write_data(a, 0, src, g, &ref);
  VF_ASSERT(rc == ERROR_SUCCESS, "allocation succeeds when memory is available");
  VF_ASSERT(ref.buffer_id == 0 && ref.offset == n0, "returned reference = old end of the buffer");
  VF_ASSERT(a->buffers[0].used == n0 + g && a->buffers[0].size >= a->buffers[0].used, "used grows by the requested size, size >= used");
  int moved = a->buffers[0].data != old0;
  VF_ASSERT(moved == (oldsize - n0 < g), "the buffer moves exactly when the request does not fit (realloc always moves here)");
  uint8_t* d0 = a->buffers[0].data;
  for (uint32_t i = 0; i < 24; i++)
  {
    if (i >= n0) break;
    if (i >= 8 && i < 16) continue; /* slot B */
    VF_ASSERT(d0[i] == snap[i], "old contents preserved across growth");
  }
  void* qA; void* qB;
  memcpy(&qA, a->buffers[1].data + 0, 8);
  memcpy(&qB, d0 + 8, 8);
  VF_ASSERT(a->buffers[1].data == old1, "the other buffer does not move");
  if (regA) VF_ASSERT(qA == (void*) (d0 + tA), "registered pointer (stored in another buffer) into the moved buffer is retargeted by the same offset");
  if (regB)
  {
    if (nullB) VF_ASSERT(qB == NULL, "registered NULL pointer stays NULL");
    else if (kB == 0) VF_ASSERT(qB == (void*) (d0 + tB), "registered pointer stored INSIDE the moved buffer and pointing into it is retargeted");
    else VF_ASSERT(qB == (void*) (old1 + tB), "registered pointer to a buffer that did not move is untouched");
  }
  for (uint32_t i = 0; i < 16; i++)
  {
    if (i >= g) break;
    if (which == 1 && zero_discipline) VF_ASSERT(d0[n0 + i] == 0, "zeroed allocation is zero (buffer only ever allocated zeroed)");
    if (which == 2) VF_ASSERT(d0[n0 + i] == src[i], "written data lands at the returned reference");
  }
  VF_ASSERT(yr_arena_get_ptr(a, 0, ref.offset) == d0 + n0, "yr_arena_get_ptr resolves the returned reference in the current buffer");
  yr_arena_release(a);
  VF_WITNESS("end");
  return 0;
}
