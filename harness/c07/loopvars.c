/* C07.H3 - loop-variable bookkeeping across consecutive loops of one compiler ("compiling arbitrary text never crashes
 * or corrupts memory"): the extracted bison actions
 *     for_variables: _IDENTIFIER_            for_variables: for_variables ',' _IDENTIFIER_
 *     for_iteration: _OF_ string_iterator
 * with the grammar prologue's own loop_vars_cleanup() macro, the real yr_parser_lookup_loop_variable (parser.c) and
 * _yr_compiler_get_var_frame (compiler.c), driven through the sequence a source text like
 *     for any i[,j] in (...) : ( ... )   then   for any of them : ( <identifier> ... )
 * produces at one nesting depth: declare 1..2 named variables (heap strings owned by the loop context), close the
 * loop (cleanup), open a string-set loop (which only sets vars_count = 1), look up an identifier inside its body,
 * close it (cleanup again; also what the error production does).
 * Decided by CBMC's memory checks (no use of freed memory, no double free) plus: nothing leaks, the string-set
 * loop declares no named variable (lookup fails for every identifier).
 * Symbolic: number of named variables, their one-character names, the identifier looked up.
 */
#include "vf.h"
#include <assert.h>
#include <string.h>
#include <stdlib.h>
#include <yara/types.h>
#include <yara/compiler.h>
#include <yara/parser.h>
#include <yara/hash.h>
#include <yara/error.h>
#include <yara/exec.h>
#include "common/mem_fail.h"
#include "arena.c"
#include "hash.c"
#include "strutils.c"

static YR_COMPILER comp;
YR_COMPILER* yara_yyget_extra(yyscan_t s) { return &comp; }
static int vf_yyerror_calls;
void yara_yyerror(yyscan_t yyscanner, YR_COMPILER* compiler, const char* msg) { vf_yyerror_calls++; }
void yara_yywarning(yyscan_t yyscanner, const char* fmt, ...) {}
#define yyerror yara_yyerror
#define yywarning yara_yywarning
#include "parser.c"
int _yr_compiler_get_var_frame(YR_COMPILER* compiler);
#include "vf_get_var_frame.h" /* the body of _yr_compiler_get_var_frame, cut from compiler.c by the driver */
#include "actions_head.h"
#undef yr_compiler_set_error_extra_info_fmt
#define yr_compiler_set_error_extra_info_fmt(compiler, fmt, ...) ((compiler)->last_error_extra_info[0] = '!');
#undef yr_compiler_set_error_extra_info
#define yr_compiler_set_error_extra_info(compiler, info) ((compiler)->last_error_extra_info[0] = '!');
#include "actions.h"

static char* mk_ident(void)
{
  char* s = malloc(2);
  __CPROVER_assume(s != NULL);
  s[0] = (char) ('i' + (vf_u8() & 3));
  s[1] = 0;
  vf_live++;
  return s;
}

int main(void)
{
  YR_COMPILER* compiler = &comp;
  void* yyscanner = NULL;
  YYSTYPE vs[4], val;
  memset(vs, 0, sizeof(vs));
  memset(&val, 0, sizeof(val));
  vf_fail_enabled = 0;
  comp.loop_index = 0; /* inside one loop at depth 0, as the `_FOR_ for_expression` mid-rule action leaves it */
  comp.loop_for_of_var_index = -1;
  comp.loop[0].vars_count = 0;
  comp.loop[0].vars_internal_count = 3;

  /* for any i[, j] in ... */
  int nvars = (int) vf_range(1, 2);
  vs[0].c_string = mk_ident();
  int rc = ACT_for_variables_first(vs + 0, &val, yyscanner, compiler);
  VF_ASSERT(rc == 0 && comp.loop[0].vars_count == 1, "the first loop variable is declared");
  if (nvars == 2)
  {
    vs[2].c_string = mk_ident();
    rc = ACT_for_variables_next(vs + 2, &val, yyscanner, compiler);
    VF_ASSERT((rc == 0 && comp.loop[0].vars_count == 2) || (rc == 2 && comp.loop[0].vars_count == 1), "a second variable is declared or rejected as duplicate");
  }
  /* ... : ( ... )  end of the loop */
  loop_vars_cleanup(compiler->loop_index);
  VF_ASSERT(vf_live == 0, "closing a loop releases its variable names");

  /* for any of them : ( <identifier> ... ) at the same depth */
  rc = ACT_for_iteration_of(vs + 1, &val, yyscanner, compiler);
  VF_ASSERT(rc == 0 && val.integer == 2 /* FOR_ITERATION_STRING_SET */, "a string-set loop is opened");
  char name[2] = {(char) ('i' + (vf_u8() & 3)), 0};
  int idx = yr_parser_lookup_loop_variable(yyscanner, name, NULL);
  VF_ASSERT(idx == -1, "a string-set loop declares no named variable: identifiers of an earlier, closed loop are not visible");
  loop_vars_cleanup(compiler->loop_index);
  VF_ASSERT(vf_live == 0 && comp.loop[0].vars_count == 0, "closing the string-set loop releases nothing twice");
  VF_WITNESS("end");
  return 0;
}
