/* C07.H4 - the regular-expression lexer's escape handling (re_lexer.l: read_escaped_char, escaped_char_value),
 * cut textually out of the .l file's user-code section by the driver (lexfuncs.h) - plain C, no flex tables.
 * Input: an arbitrary NUL-terminated character stream of <= 3 characters after the backslash.
 * Asserted: never reads past the terminator, never writes outside `value`, returns 0 (error) for a truncated
 * or non-hex \x escape, otherwise the documented value; result code in {0, VALID, UNKNOWN}.
 *   sscanf("%x") on two verified hex digits is a contract stub (returns their value).
 */
#include "vf.h"
#include <assert.h>
#include <ctype.h>
#include <string.h>
#include <stdio.h>
#include <stdbool.h>
#include <stdint.h>
/* <ctype.h> in the C locale (glibc implements it through a table the model checker cannot see) */
static int vf_isxdigit(int c) { return (c >= '0' && c <= '9') || (c >= 'a' && c <= 'f') || (c >= 'A' && c <= 'F'); }
#undef isxdigit
#define isxdigit(c) vf_isxdigit(c)
typedef void* yyscan_t;
#define VALID_ESCAPE_SEQUENCE 1
#define UNKNOWN_ESCAPE_SEQUENCE 2
static char stream[5];
static int spos, slen;
static int vf_input(void)
{
  VF_ASSERT(spos <= slen, "the lexer never reads past the end of its input");
  int c = (unsigned char) stream[spos <= 4 ? spos : 4];
  spos++;
  return c == 0 ? 0 : c;
}
#define RE_YY_INPUT(s) vf_input()
static unsigned vf_hexval(char c) { return (c >= '0' && c <= '9') ? c - '0' : (c >= 'a' && c <= 'f') ? c - 'a' + 10 : c - 'A' + 10; }
#define sscanf(buf, fmt, out) (*(out) = vf_hexval((buf)[0]) * 16 + vf_hexval((buf)[1]), 1)
#include "lexfuncs.h"

int main(void)
{
  slen = (int) vf_range(0, 3);
  for (int i = 0; i < 4; i++)
  {
    stream[i] = (char) vf_u8();
    if (i < slen) VF_ASSUME(stream[i] != 0);
    else stream[i] = 0;
  }
  stream[4] = 0;
  bool strict = vf_bool();
  uint8_t guard[3] = {0xA5, 0, 0x5A};
  int r = read_escaped_char(NULL, &guard[1], strict);
  VF_ASSERT(guard[0] == 0xA5 && guard[2] == 0x5A, "only the output byte is written");
  VF_ASSERT(r == 0 || r == VALID_ESCAPE_SEQUENCE || r == UNKNOWN_ESCAPE_SEQUENCE, "result code is one of the three documented values");
  if (slen == 0) VF_ASSERT(r == 0, "a backslash at the end of the input is an error");
  if (slen >= 1 && stream[0] == 'x')
  {
    int ok = slen >= 3 && isxdigit((unsigned char) stream[1]) && isxdigit((unsigned char) stream[2]);
    VF_ASSERT((r != 0) == ok, "\\x needs exactly two hex digits, otherwise an error");
    if (ok) VF_ASSERT(guard[1] == vf_hexval(stream[1]) * 16 + vf_hexval(stream[2]), "\\xHH yields the byte HH");
  }
  if (slen >= 1 && stream[0] == 'n') VF_ASSERT(r == VALID_ESCAPE_SEQUENCE && guard[1] == '\n', "\\n is newline");
  if (slen >= 1 && r == UNKNOWN_ESCAPE_SEQUENCE) VF_ASSERT(strict && guard[1] == (uint8_t) stream[0], "unknown escapes are only reported in strict mode and stand for the character itself");
  VF_WITNESS("end");
  return 0;
}
