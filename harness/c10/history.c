/* C10.H2 - one inductive step of "a scanner's results do not depend on its scan history", on the REAL whole scan.
 * Representation invariant of a scanner at rest (established by yr_scanner_create, re-established by every
 * completed scan - asserted below and, for every error/abort exit, in C11.H1/C10.H1):
 *     matches[], unconfirmed_matches[], rule_matches_flags, ns_unsatisfied_flags, required_eval,
 *     strings_temp_disabled all zero, matches_notebook == NULL.
 * Everything else a previous scan may have left behind is ARBITRARY here: entry_point, file_size,
 * last_error_string, iterator, stopwatch.  Two scanners that differ only in those fields scan the same
 * symbolic data; the rule's condition reads match count, filesize and the (deprecated) entrypoint keyword.
 * Asserted: identical callbacks/match lists/result (2-safety), and the invariant holds again afterwards.
 */
#define VF_CLOCK_CUSTOM 1
#include "vf.h"
#include <stdint.h>
static uint64_t vf_ep; /* what exefiles.c would compute for this data: any value, the same for both runs */
#define VF_WITH_EXEFILES 1
#include <yara/types.h>
uint64_t yr_get_entry_point_offset(const uint8_t* buffer, size_t buffer_length) { return vf_ep; }
uint64_t yr_get_entry_point_address(const uint8_t* buffer, size_t buffer_length, uint64_t base_address) { return vf_ep; }
#include <yara/stopwatch.h>
uint64_t yr_stopwatch_elapsed_ns(YR_STOPWATCH* sw) { return 0; }
void yr_stopwatch_start(YR_STOPWATCH* sw) {}
#define VF_NBLOCKS_C 1
#include "common/whole_scan.h"
#include "img_img.h"

#ifndef VF_N
#define VF_N 4
#endif
static vf_trace trA, trB;
static vf_trace* cur;
static int vf_cb(YR_SCAN_CONTEXT* c, int msg, void* data, void* ud)
{
  vf_trace_add(cur, c, msg, data);
  return CALLBACK_CONTINUE;
}
static int at_rest(vf_scanner* s)
{
  return s->rule_matches[0] == 0 && s->ns_unsat[0] == 0 && s->required_eval[0] == 0 && s->temp_disabled[0] == 0 &&
         s->matches[0].head == NULL && s->matches[0].tail == NULL && s->matches[0].count == 0 &&
         s->unconfirmed[0].head == NULL && s->unconfirmed[0].count == 0 && s->sc.matches_notebook == NULL;
}

int main(void)
{
  static uint8_t buf[VF_N];
  vf_init_tables();
  IMG_init();
  IMG_no_required[0] |= 1;
  size_t n = vf_range(0, VF_N);
  vf_fill(buf, VF_N);
  vf_ep = vf_u64();
  static vf_scanner A, B;
  YR_MEMORY_BLOCK_ITERATOR itA, itB, stale;
  static vf_iter_ctx cA, cB;
  int flags = SCAN_FLAGS_REPORT_RULES_MATCHING | SCAN_FLAGS_REPORT_RULES_NOT_MATCHING;
  vf_scanner_init(&A, &IMG_rules_obj, vf_cb, flags);   /* fresh scanner */
  vf_scanner_init(&B, &IMG_rules_obj, vf_cb, flags);   /* reused scanner: history-carrying fields arbitrary */
  B.sc.entry_point = vf_u64();
  B.sc.file_size = vf_u64();
  B.sc.last_error_string = vf_bool() ? &IMG_strings[0] : NULL;
  B.sc.iterator = vf_bool() ? &stale : NULL;
  vf_iter_setup(&itA, &cA, buf, n, 1, 0, 0);
  vf_iter_setup(&itB, &cB, buf, n, 1, 0, 0);
  cur = &trA;
  int rA = yr_scanner_scan_mem_blocks(&A.sc, &itA);
  cur = &trB;
  int rB = yr_scanner_scan_mem_blocks(&B.sc, &itB);
  VF_ASSERT(rA == ERROR_SUCCESS && rB == rA, "the reused scanner returns what a fresh one returns");
  VF_ASSERT(vf_trace_eq(&trA, &trB), "the reused scanner reports exactly what a fresh one reports (verdict, matches)");
  VF_ASSERT(at_rest(&A) && at_rest(&B), "a completed scan leaves the scanner in its at-rest state");
  VF_WITNESS("end");
  return 0;
}
