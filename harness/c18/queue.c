/* C18.H1 - the CLI's bounded file queue (cli/yara.c: file_queue_init / put / get / finish) as an INDUCTIVE STEP:
 * from an arbitrary state that satisfies the queue invariant, one call of put, get or finish by any thread, at call
 * granularity (each call runs entirely under queue_mutex / between one semaphore wait and one release; the harness's
 * mutex stub asserts that every access to head/tail happens with the mutex held and that it is released at return).
 *
 * Invariant I (ghost state in the harness):
 *   0 <= head, tail <= MAX_QUEUED_FILES;  count = (tail - head) mod (MAX+1);
 *   used_slots = count + F   (F: wake-up tokens released by finish and not yet consumed)
 *   unused_slots = MAX - count + E   (E: tokens returned by consumers that found the queue empty; E > 0 only after finish)
 *   slots head .. tail-1 hold the queued paths in FIFO order (oldest at head).
 * Step obligations:
 *   put  (enabled iff unused_slots > 0; before finish):  writes exactly the free slot `tail`, no queued slot is overwritten,
 *        the stored path is a copy of the argument, count grows by one, I holds;
 *   get  (enabled iff used_slots > 0):  returns NULL only if the queue is empty, otherwise the OLDEST queued path, which
 *        leaves the queue (exactly-once delivery, FIFO), I holds;
 *   finish: afterwards used_slots >= count + YR_MAX_THREADS, so that each of up to YR_MAX_THREADS consumers still obtains
 *        every queued file first and then one NULL.
 * MAX_QUEUED_FILES is the real 64: head and tail are symbolic over the whole ring.
 */
#include "vf.h"
#include <string.h>
#include <stdlib.h>
#include <time.h>
#define main yara_cli_main
#include "../cli/yara.c"
#undef main

/* ---- stubs for cli/threading.c (counters; a wait on 0 is a disabled step) ---- */
static int vf_sem_used, vf_sem_unused, vf_mutex_held, vf_lock_calls, vf_bad_access;
static int* vf_sem(SEMAPHORE* s) { return s == &used_slots ? &vf_sem_used : &vf_sem_unused; }
int cli_mutex_init(MUTEX* m) { return 0; }
void cli_mutex_destroy(MUTEX* m) {}
void cli_mutex_lock(MUTEX* m)
{
  VF_ASSERT(m == &queue_mutex && !vf_mutex_held, "queue functions take queue_mutex, once");
  vf_mutex_held = 1;
  vf_lock_calls++;
}
void cli_mutex_unlock(MUTEX* m)
{
  VF_ASSERT(m == &queue_mutex && vf_mutex_held, "unlock matches a lock");
  vf_mutex_held = 0;
}
int cli_semaphore_init(SEMAPHORE* s, int value) { *vf_sem(s) = value; return 0; }
void cli_semaphore_destroy(SEMAPHORE* s) {}
int cli_semaphore_wait(SEMAPHORE* s, time_t abs_timeout)
{
  VF_ASSERT(!vf_mutex_held, "never blocks on a semaphore while holding the queue mutex");
  VF_ASSUME(*vf_sem(s) > 0); /* the step is enabled */
  (*vf_sem(s))--;
  return 0;
}
void cli_semaphore_release(SEMAPHORE* s)
{
  VF_ASSERT(!vf_mutex_held, "semaphores are released outside the critical section");
  (*vf_sem(s))++;
}

/* never reached from the harness; present so that the native replay links */
int cli_create_thread(THREAD* thread, THREAD_START_ROUTINE start_routine, void* param) { return -1; }
void cli_thread_join(THREAD* thread) {}

#define RING (MAX_QUEUED_FILES + 1)

int main(void)
{
  /* file_queue_init establishes the invariant */
  VF_ASSERT(file_queue_init() == 0, "init succeeds");
  VF_ASSERT(queue_head == 0 && queue_tail == 0 && vf_sem_used == 0 && vf_sem_unused == MAX_QUEUED_FILES, "initial state: empty queue, all slots unused");

  /* ---- arbitrary state satisfying I ---- */
  static char_t names[RING][2];
  int head = (int) vf_range(0, MAX_QUEUED_FILES), count = (int) vf_range(0, MAX_QUEUED_FILES);
  int finished = vf_bool();
  int F = finished ? (int) vf_range(0, YR_MAX_THREADS) : 0;
  int E = finished ? (int) vf_range(0, YR_MAX_THREADS) : 0;
  queue_head = head;
  queue_tail = (head + count) % RING;
  vf_sem_used = count + F;
  vf_sem_unused = MAX_QUEUED_FILES - count + E;
  for (int i = 0; i < RING; i++)
  {
    names[i][0] = (char_t) ('A' + i);
    names[i][1] = 0;
    file_queue[i].path = names[i]; /* slot i holds path id i (queued or stale) */
  }
  int tail = queue_tail;
  unsigned step = vf_range(0, 2);
  if (step == 0)
  {
    VF_ASSUME(!finished); /* the producer calls finish last */
    char_t p[2];
    p[0] = (char_t) vf_u8();
    p[1] = 0;
    VF_ASSUME(p[0] != 0);
    int rc = file_queue_put(p, (time_t) 0);
    VF_ASSERT(rc == ERROR_SUCCESS, "put succeeds when a slot is unused");
    VF_ASSERT(count < MAX_QUEUED_FILES, "put is only enabled when the ring has a free slot");
    VF_ASSERT(queue_head == head && queue_tail == (tail + 1) % RING, "put advances the tail only");
    for (int i = 0; i < RING; i++)
      if (i != tail) VF_ASSERT(file_queue[i].path == names[i], "put writes no slot other than the free tail slot (no queued file is overwritten)");
    VF_ASSERT(file_queue[tail].path != NULL && file_queue[tail].path != p && file_queue[tail].path[0] == p[0] && file_queue[tail].path[1] == 0, "the queue stores its own copy of the path");
    VF_ASSERT(vf_sem_used == count + 1 + F && vf_sem_unused == MAX_QUEUED_FILES - (count + 1) + E, "semaphores track the new count");
  }
  else if (step == 1)
  {
    char_t* r = file_queue_get((time_t) 0);
    if (count == 0)
    {
      VF_ASSERT(r == NULL, "an empty queue yields NULL (only possible after finish)");
      VF_ASSERT(finished, "before finish a consumer is never woken on an empty queue");
      VF_ASSERT(queue_head == head && queue_tail == tail, "an empty get changes nothing");
    }
    else
    {
      VF_ASSERT(r == names[head], "get returns the oldest queued path - never NULL while files are queued");
      VF_ASSERT(queue_head == (head + 1) % RING && queue_tail == tail, "get advances the head only");
      VF_ASSERT(vf_sem_used == count - 1 + F && vf_sem_unused == MAX_QUEUED_FILES - (count - 1) + E, "semaphores track the new count");
    }
    for (int i = 0; i < RING; i++) VF_ASSERT(file_queue[i].path == names[i], "get writes no slot");
  }
  else
  {
    VF_ASSUME(!finished);
    file_queue_finish();
    VF_ASSERT(queue_head == head && queue_tail == tail, "finish does not touch the ring");
    VF_ASSERT(vf_sem_used >= count + YR_MAX_THREADS, "after finish every consumer thread (up to YR_MAX_THREADS) can still take all queued files and then one wake-up");
    VF_ASSERT(vf_lock_calls == 0, "finish needs no lock");
  }
  VF_ASSERT(!vf_mutex_held, "the mutex is released at return");
  VF_ASSERT(queue_head >= 0 && queue_head < RING && queue_tail >= 0 && queue_tail < RING, "indices stay inside the ring");
  VF_WITNESS("end");
  return 0;
}
