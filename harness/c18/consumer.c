/* C18.H3 - the consumer loop of a scanning thread (cli/yara.c scanning_thread) over the REAL queue functions:
 * the queue holds n <= 2 files and the producer has finished; every scan may fail with an arbitrary error (open failure,
 * scan error, callback error...).  A thread may only stop once the queue gave it NULL, i.e. when it returns, every queued
 * file has been dequeued (none is silently left behind because an earlier file failed), each exactly once and in order,
 * each was handed to the scanner, and its path was released.
 * Stubs: open/close/yr_scanner_scan_fd (records the path, returns a symbolic result), time() = 0 with a far deadline,
 * yr_scanner_set_timeout, error-printing helpers of libyara; semaphores = counters, mutexes = flags.
 */
#include "vf.h"
#include <string.h>
#include <stdlib.h>
#include <time.h>
#include <fcntl.h>
#include <unistd.h>
int vf_open(const char* path, int flags, ...);
int vf_close(int fd);
time_t vf_time(time_t* t);
#define main yara_cli_main
#define open vf_open
#define close vf_close
#define time vf_time
#include "../cli/yara.c"
#undef main
#undef open
#undef close
#undef time

static int vf_sem_used, vf_sem_unused;
static int* vf_sem(SEMAPHORE* s) { return s == &used_slots ? &vf_sem_used : &vf_sem_unused; }
int cli_mutex_init(MUTEX* m) { return 0; }
void cli_mutex_destroy(MUTEX* m) {}
void cli_mutex_lock(MUTEX* m) {}
void cli_mutex_unlock(MUTEX* m) {}
int cli_semaphore_init(SEMAPHORE* s, int value) { *vf_sem(s) = value; return 0; }
void cli_semaphore_destroy(SEMAPHORE* s) {}
int cli_semaphore_wait(SEMAPHORE* s, time_t abs_timeout)
{
  VF_ASSERT(*vf_sem(s) > 0, "after finish a consumer never blocks: there is a token for every queued file and every thread");
  (*vf_sem(s))--;
  return 0;
}
void cli_semaphore_release(SEMAPHORE* s) { (*vf_sem(s))++; }
int cli_create_thread(THREAD* thread, THREAD_START_ROUTINE start_routine, void* param) { return -1; }
void cli_thread_join(THREAD* thread) {}

/* environment of scan_file */
static const char* vf_opened[4];
static int vf_nopened, vf_nscanned;
int vf_open(const char* path, int flags, ...)
{
  if (vf_nopened < 4) vf_opened[vf_nopened] = path;
  vf_nopened++;
  return vf_bool() ? -1 : 3;
}
int vf_close(int fd) { return 0; }
time_t vf_time(time_t* t) { return 0; }
void yr_scanner_set_timeout(YR_SCANNER* scanner, int timeout) {}
int yr_scanner_scan_fd(YR_SCANNER* scanner, YR_FILE_DESCRIPTOR fd)
{
  vf_nscanned++;
  int r = (int) vf_range(0, 64); /* any libyara error code */
  return r;
}
static YR_RULE vf_rule;
static YR_STRING vf_string;
YR_RULE* yr_scanner_last_error_rule(YR_SCANNER* scanner) { return NULL; }
YR_STRING* yr_scanner_last_error_string(YR_SCANNER* scanner) { return NULL; }

int main(void)
{
  static THREAD_ARGS args;
  static YR_SCANNER* scanner_dummy;
  VF_ASSERT(file_queue_init() == 0, "init");
  unsigned n = vf_range(0, 2);
  char_t p0[2] = {'a', 0}, p1[2] = {'b', 0};
  if (n >= 1) VF_ASSERT(file_queue_put(p0, 0) == ERROR_SUCCESS, "put 1");
  if (n >= 2) VF_ASSERT(file_queue_put(p1, 0) == ERROR_SUCCESS, "put 2");
  file_queue_finish();
  args.deadline = (time_t) 1000;
  args.scanner = scanner_dummy;
  scanning_thread(&args);
  VF_ASSERT(queue_head == queue_tail, "a scanning thread only stops after the queue gave it NULL: no queued file is left behind, whatever the earlier scans returned");
  VF_ASSERT(vf_nopened == (int) n, "every dequeued file is handed to the scanner exactly once");
  VF_ASSERT(vf_sem_used == YR_MAX_THREADS - 1, "the thread consumed one token per file plus one wake-up");
  VF_WITNESS("end");
  return 0;
}
