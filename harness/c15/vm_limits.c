/* C15 - engine limits inside the condition VM (exec.c), limits scaled through the code's own knobs:
 *  VF_MODE=1  evaluation stack: capacity L symbolic (1..6), program pushes K=4 constants, pops 3, matches.
 *             L < K  => ERROR_EXEC_STACK_OVERFLOW, never a write past stack.items (CBMC bounds checks);  L >= K => success.
 *  VF_MODE=2  timeout: program of 120 NOPs, symbolic clock reading and timeout: the VM polls the clock every 100
 *             instructions; clock > timeout > 0 at the poll => ERROR_SCAN_TIMEOUT (so a scan overruns its deadline by
 *             at most 100 instructions), timeout == 0 => never.
 */
#define VF_CODE_MAX 160
#include "common/exec_env.h"

static YR_RULE rules_table[1];
static YR_NAMESPACE ns0;
static YR_RULES rules;
static YR_SCAN_CONTEXT ctx;
static YR_BITMASK rule_matches[1], ns_unsat[1], required_eval[1];
static YR_ARENA rules_arena;

static void setup(void)
{
  memset(&ctx, 0, sizeof(ctx));
  memset(&rules, 0, sizeof(rules));
  memset(rules_table, 0, sizeof(rules_table));
  rule_matches[0] = ns_unsat[0] = 0;
  required_eval[0] = 1;
  rules_table[0].ns = &ns0;
  rules.rules_table = rules_table;
  rules.num_rules = 1;
  rules.code_start = vf_code;
  memset(&rules_arena, 0, sizeof(rules_arena));
  rules_arena.num_buffers = 1;
  rules_arena.buffers[0].data = (uint8_t*) rules_table;
  rules_arena.buffers[0].size = rules_arena.buffers[0].used = sizeof(rules_table);
  rules.arena = &rules_arena;
  ctx.rules = &rules;
  ctx.rule_matches_flags = rule_matches;
  ctx.ns_unsatisfied_flags = ns_unsat;
  ctx.required_eval = required_eval;
}

int main(void)
{
  setup();
#if VF_MODE == 1
  vf_stack_size = vf_range(1, 6);
  vf_cp = 0;
  emit_rule_begin(0);
  for (int i = 0; i < 4; i++) emit_push(vf_u64());
  for (int i = 0; i < 3; i++) emit8(OP_POP);
  emit_rule_end(0);
  emit8(OP_HALT);
  int r = yr_execute_code(&ctx);
  if (vf_stack_size < 4)
    VF_ASSERT(r == ERROR_EXEC_STACK_OVERFLOW, "pushing beyond the configured stack size yields ERROR_EXEC_STACK_OVERFLOW");
  else
    VF_ASSERT(r == ERROR_SUCCESS, "a program that fits in the configured stack succeeds");
  VF_ASSERT(vf_unload_calls == 1, "modules are unloaded on the error path too");
#else
  vf_cp = 0;
  emit_rule_begin(0);
  for (int i = 0; i < 120; i++) emit8(OP_NOP);
  emit_push(1);
  emit_rule_end(0);
  emit8(OP_HALT);
  ctx.timeout = vf_u64();
  vf_clock_now = vf_u64();
  int r = yr_execute_code(&ctx);
  if (ctx.timeout > 0 && vf_clock_now > ctx.timeout)
    VF_ASSERT(r == ERROR_SCAN_TIMEOUT && (rule_matches[0] & 1) == 0, "past the deadline the VM stops with ERROR_SCAN_TIMEOUT within 100 instructions");
  else
    VF_ASSERT(r == ERROR_SUCCESS && (rule_matches[0] & 1) == 1, "no timeout configured or deadline not reached: evaluation completes");
#endif
  VF_WITNESS("end");
  return 0;
}
