/* C15 - engine limits inside the condition VM (exec.c), limits scaled through the code's own knobs:
 *  VF_MODE=1  evaluation stack: capacity L symbolic (1..6), program pushes K=4 constants, pops 3, matches.
 *             L < K  => ERROR_EXEC_STACK_OVERFLOW, never a write past stack.items (CBMC bounds checks);  L >= K => success.
 *  VF_MODE=2  timeout: program of 120 NOPs, symbolic clock reading and timeout: the VM polls the clock every 100
 *             instructions; clock > timeout > 0 at the poll => ERROR_SCAN_TIMEOUT (so a scan overruns its deadline by
 *             at most 100 instructions), timeout == 0 => never.
 *  VF_MODE=3  the same with module function calls in the program: 88 NOPs, then VF_SLOTS x (OP_OBJ_LOAD f; OP_PUSH arg;
 *             OP_CALL "i"; OP_POP) around the 100th instruction, every arg symbolic (an undefined argument skips the
 *             call), so the calls made are any subset.
 *             Whatever the mix, a program of >= 100 instructions run past its deadline ends with ERROR_SCAN_TIMEOUT.
 *             Environment: yr_hash_table_lookup -> the function object, yr_object_copy/destroy -> counters.
 */
#ifndef VF_CODE_MAX
#define VF_CODE_MAX 160
#endif
#include "common/exec_env.h"

static YR_RULE rules_table[1];
static YR_NAMESPACE ns0;
static YR_RULES rules;
static YR_SCAN_CONTEXT ctx;
static YR_BITMASK rule_matches[1], ns_unsat[1], required_eval[1];
static YR_ARENA rules_arena;

static void setup(void)
{
  memset(&ctx, 0, sizeof(ctx));
  memset(&rules, 0, sizeof(rules));
  memset(rules_table, 0, sizeof(rules_table));
  rule_matches[0] = ns_unsat[0] = 0;
  required_eval[0] = 1;
  rules_table[0].ns = &ns0;
  rules.rules_table = rules_table;
  rules.num_rules = 1;
  rules.code_start = vf_code;
  memset(&rules_arena, 0, sizeof(rules_arena));
  rules_arena.num_buffers = 1;
  rules_arena.buffers[0].data = (uint8_t*) rules_table;
  rules_arena.buffers[0].size = rules_arena.buffers[0].used = sizeof(rules_table);
  rules.arena = &rules_arena;
  ctx.rules = &rules;
  ctx.rule_matches_flags = rule_matches;
  ctx.ns_unsatisfied_flags = ns_unsat;
  ctx.required_eval = required_eval;
}

#if VF_MODE == 3
#ifndef VF_SLOTS
#define VF_SLOTS 4
#endif
static YR_OBJECT_FUNCTION vf_func;
static YR_OBJECT vf_ret, vf_ret_copy;
static int vf_fn_calls, vf_copies, vf_destroys;
static int vf_fn(YR_VALUE* args, YR_SCAN_CONTEXT* context, YR_OBJECT_FUNCTION* function_obj) { vf_fn_calls++; return ERROR_SUCCESS; }
void* yr_hash_table_lookup(YR_HASH_TABLE* table, const char* key, const char* ns) { return &vf_func; }
int yr_object_copy(YR_OBJECT* object, YR_OBJECT** object_copy) { vf_copies++; *object_copy = &vf_ret_copy; return ERROR_SUCCESS; }
void yr_object_destroy(YR_OBJECT* object) { vf_destroys++; }
static void emit_ptr(const void* p) { *(const void**) (vf_code + vf_cp) = p; vf_cp += 8; }
#endif

int main(void)
{
  setup();
#if VF_MODE == 3
  vf_func.type = OBJECT_TYPE_FUNCTION;
  vf_func.canary = ctx.canary = 7;
  vf_func.return_obj = &vf_ret;
  vf_func.prototypes[0].arguments_fmt = "i";
  vf_func.prototypes[0].code = vf_fn;
  vf_func.prototypes[1].arguments_fmt = NULL;
  static char strtab[4] = {'f', 0, 'i', 0}; /* identifiers and argument formats live in the rules arena (YR_PARANOID_EXEC checks it) */
  rules_arena.num_buffers = 2;
  rules_arena.buffers[1].data = (uint8_t*) strtab;
  rules_arena.buffers[1].size = rules_arena.buffers[1].used = sizeof(strtab);
  vf_cp = 0;
  emit_rule_begin(0);
  int ncalls = 0;
  for (int i = 0; i < 88; i++) emit8(OP_NOP);
  for (int i = 0; i < VF_SLOTS; i++)
  {
    uint64_t arg = vf_bool() ? (uint64_t) YR_UNDEFINED : 1;
    if (arg == 1) ncalls++;
    emit8(OP_OBJ_LOAD); emit_ptr(strtab);
    emit_push(arg);
    emit8(OP_CALL); emit_ptr(strtab + 2);
    emit8(OP_POP);
  }
  emit_push(1);
  emit_rule_end(0);
  emit8(OP_HALT);
  ctx.timeout = vf_u64();
  vf_clock_now = vf_u64();
  int r = yr_execute_code(&ctx);
  if (ctx.timeout > 0 && vf_clock_now > ctx.timeout)
  {
    VF_ASSERT(r == ERROR_SCAN_TIMEOUT && (rule_matches[0] & 1) == 0, "past the deadline the VM stops with ERROR_SCAN_TIMEOUT within 100 instructions, whatever the instruction mix");
  }
  else
  {
    VF_ASSERT(r == ERROR_SUCCESS && (rule_matches[0] & 1) == 1, "no timeout configured or deadline not reached: evaluation completes");
    VF_ASSERT(vf_fn_calls == ncalls, "every call with defined arguments is made");
  }
  VF_ASSERT(vf_copies == vf_fn_calls && vf_destroys == vf_copies, "every function result is copied once and released once at exit");
#elif VF_MODE == 1
  vf_stack_size = vf_range(1, 6);
  vf_cp = 0;
  emit_rule_begin(0);
  for (int i = 0; i < 4; i++) emit_push(vf_u64());
  for (int i = 0; i < 3; i++) emit8(OP_POP);
  emit_rule_end(0);
  emit8(OP_HALT);
  int r = yr_execute_code(&ctx);
  if (vf_stack_size < 4)
    VF_ASSERT(r == ERROR_EXEC_STACK_OVERFLOW, "pushing beyond the configured stack size yields ERROR_EXEC_STACK_OVERFLOW");
  else
    VF_ASSERT(r == ERROR_SUCCESS, "a program that fits in the configured stack succeeds");
  VF_ASSERT(vf_unload_calls == 1, "modules are unloaded on the error path too");
#else
  vf_cp = 0;
  emit_rule_begin(0);
  for (int i = 0; i < 120; i++) emit8(OP_NOP);
  emit_push(1);
  emit_rule_end(0);
  emit8(OP_HALT);
  ctx.timeout = vf_u64();
  vf_clock_now = vf_u64();
  int r = yr_execute_code(&ctx);
  if (ctx.timeout > 0 && vf_clock_now > ctx.timeout)
    VF_ASSERT(r == ERROR_SCAN_TIMEOUT && (rule_matches[0] & 1) == 0, "past the deadline the VM stops with ERROR_SCAN_TIMEOUT within 100 instructions");
  else
    VF_ASSERT(r == ERROR_SUCCESS && (rule_matches[0] & 1) == 1, "no timeout configured or deadline not reached: evaluation completes");
#endif
  VF_WITNESS("end");
  return 0;
}
