/* C15 - matches-per-string limit, scaled to 3 through the code's own #ifndef (-DYR_MAX_STRING_MATCHES=3, identical in
 * the native image build and here).  Image: rule r { strings: $a = "a" $b = "b" condition: any of them }.
 * Symbolic: buffer (<= VF_N bytes), the callback's answer to CALLBACK_MSG_TOO_MANY_MATCHES.
 * Asserted: the 4th occurrence of $a triggers exactly one TOO_MANY_MATCHES message for $a; CONTINUE mutes $a (count
 * stays 3, scan succeeds) and leaves $b's matches exactly those of the documented occurrences; any other answer
 * makes the scan return ERROR_TOO_MANY_MATCHES with last_error_string = $a.
 */
#include "common/scan_env.h"
#include "mem.c"
#include "strutils.c"
#include "scan.c"
#include "scanner.c"
#include "img_img.h"

#ifndef VF_N
#define VF_N 6
#endif
static YR_SCANNER sc;
static YR_MATCHES matches[IMG_NUM_STRINGS], unconfirmed[IMG_NUM_STRINGS];
static YR_BITMASK rule_matches[1], ns_unsat[1], required_eval[1], temp_disabled[1];
static int tmm_calls, other_calls, answer;
static void* tmm_string;
static int vf_cb(YR_SCAN_CONTEXT* c, int msg, void* data, void* ud)
{
  if (msg == CALLBACK_MSG_TOO_MANY_MATCHES) { tmm_calls++; tmm_string = data; return answer; }
  other_calls++;
  return CALLBACK_CONTINUE;
}

int main(void)
{
  static uint8_t buf[VF_N];
  vf_init_tables();
  IMG_init();
  size_t n = vf_range(0, VF_N);
  vf_fill(buf, VF_N);
  answer = (int) vf_range(0, 2);
  memset(&sc, 0, sizeof(sc));
  sc.rules = &IMG_rules_obj;
  sc.flags = SCAN_FLAGS_NO_TRYCATCH;
  sc.callback = vf_cb;
  sc.matches = matches;
  sc.unconfirmed_matches = unconfirmed;
  sc.rule_matches_flags = rule_matches;
  sc.ns_unsatisfied_flags = ns_unsat;
  sc.required_eval = required_eval;
  sc.strings_temp_disabled = temp_disabled;
  yr_notebook_create(0, &sc.matches_notebook);
  YR_MEMORY_BLOCK block;
  block.size = n; block.base = 0; block.context = buf; block.fetch_data = NULL;
  int r = _yr_scanner_scan_mem_block(&sc, buf, &block);

  int na = 0, nb = 0;
  size_t fourth = VF_N; /* offset of the 4th 'a' */
  for (size_t i = 0; i < VF_N; i++)
  {
    if (i >= n) break;
    if (buf[i] == 'a') { na++; if (na == 4) fourth = i; }
  }
  if (na <= YR_MAX_STRING_MATCHES)
  {
    VF_ASSERT(r == ERROR_SUCCESS && tmm_calls == 0 && matches[0].count == na, "up to the limit every occurrence is recorded and no warning is raised");
#if IMG_NUM_STRINGS > 1
    for (size_t i = 0; i < VF_N; i++) if (i < n && buf[i] == 'b') nb++;
    VF_ASSERT(matches[1].count == nb, "the other string is unaffected");
#endif
  }
  else if (answer == CALLBACK_CONTINUE)
  {
    VF_ASSERT(r == ERROR_SUCCESS, "CONTINUE keeps the scan going");
    VF_ASSERT(tmm_calls == 1 && tmm_string == (void*) &IMG_strings[0], "exactly one too-many-matches message, for the noisy string");
    VF_ASSERT(matches[0].count == YR_MAX_STRING_MATCHES, "the muted string keeps its first matches");
#if IMG_NUM_STRINGS > 1
    for (size_t i = 0; i < VF_N; i++) if (i < n && buf[i] == 'b') nb++;
    VF_ASSERT(matches[1].count == nb, "a limit hit by one string never changes the matches of another");
#endif
  }
  else
  {
    VF_ASSERT(r == ERROR_TOO_MANY_MATCHES && tmm_calls == 1, "any other answer aborts the scan with ERROR_TOO_MANY_MATCHES");
    VF_ASSERT(sc.last_error_string == &IMG_strings[0], "the offending string is reported");
  }
  VF_ASSERT(other_calls == 0, "no other message during block scanning");
  VF_WITNESS("end");
  return 0;
}
