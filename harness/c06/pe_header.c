/* C06.H3 - pe_utils.c pe_get_header and pe_rva_to_offset on an arbitrary buffer of EXACTLY VF_N bytes (one harness per size,
 * so that every read past data_size is a read past the object): MZ / e_lfanew / NT signature / optional-header checks must
 * keep every access inside the data; a header that is returned lies entirely inside the data; an offset returned by
 * pe_rva_to_offset for ANY rva is inside the data (sections: NumberOfSections <= 1 symbolic section header).
 */
#include "vf.h"
#include <string.h>
#include "modules/pe/pe_utils.c"
#ifndef VF_N
#define VF_N 64
#endif
int main(void)
{
  static uint8_t buf[VF_N];
  for (int i = 0; i < VF_N; i++) buf[i] = vf_u8();
  PIMAGE_NT_HEADERS32 h = pe_get_header(buf, VF_N);
  if (h != NULL)
  {
    size_t off = (const uint8_t*) h - buf;
    size_t need = 4 + sizeof(IMAGE_FILE_HEADER) + (h->OptionalHeader.Magic == IMAGE_NT_OPTIONAL_HDR64_MAGIC ? sizeof(IMAGE_OPTIONAL_HEADER64) : sizeof(IMAGE_OPTIONAL_HEADER32));
    VF_ASSERT(off <= VF_N && need <= VF_N - off, "a header that is accepted lies entirely inside the data");
#ifdef VF_RVA
    static PE pe;
    pe.data = buf;
    pe.data_size = VF_N;
    pe.header = h;
    VF_ASSUME(yr_le16toh(h->FileHeader.NumberOfSections) <= 1);
    uint64_t rva = vf_u64();
    int64_t o = pe_rva_to_offset(&pe, rva);
    VF_ASSERT(o == -1 || (o >= 0 && (uint64_t) o < VF_N), "rva translation yields an offset inside the data or -1");
#endif
  }
  VF_WITNESS("end");
  return 0;
}
