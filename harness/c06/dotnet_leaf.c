/* C06.H4 - dotnet.c leaf readers on an arbitrary 8-byte data window (object exactly that large) with the cursor anywhere in
 * it, including at its very end: dotnet_parse_blob_entry (ECMA-335 II.24.2.4 compressed blob length), read_blob_unsigned /
 * read_blob_signed (compressed integers with a remaining-length counter), pe_get_dotnet_string (#Strings heap lookup).
 * Asserted: no access outside the data; a blob that is accepted lies inside the data; the integer readers never advance past
 * the remaining length; a string that is returned starts inside the data and is NUL-terminated inside it.
 */
#include "vf.h"
#include <string.h>
/* memmem for a 1-byte needle (the only use reachable here) */
void* memmem(const void* h, size_t hl, const void* n, size_t nl)
{
  const unsigned char* p = (const unsigned char*) h;
  unsigned char c = *(const unsigned char*) n;
  for (size_t i = 0; i < hl; i++)
    if (p[i] == c) return (void*) (p + i);
  return NULL;
}
#include "modules/dotnet/dotnet.c"
#define VF_N 8
static uint8_t buf[VF_N];

int main(void)
{
  static PE pe;
  for (int i = 0; i < VF_N; i++) buf[i] = vf_u8();
  pe.data = buf;
  pe.data_size = VF_N;
  unsigned o = vf_range(0, VF_N);
  unsigned which = vf_range(0, 3);
  if (which == 0)
  {
    BLOB_PARSE_RESULT r = dotnet_parse_blob_entry(&pe, buf + o);
    VF_ASSERT(r.size == 0 || r.size == 1 || r.size == 2 || r.size == 4, "blob header is 1, 2 or 4 bytes (0 = rejected)");
    if (r.size != 0) VF_ASSERT((uint64_t) o + r.size + r.length <= VF_N, "an accepted blob (header + payload) lies inside the data");
  }
  else if (which == 1 || which == 2)
  {
    const uint8_t* p = buf + o;
    uint32_t len = vf_range(0, VF_N);
    VF_ASSUME(len <= VF_N - o);
    uint32_t len0 = len;
    if (which == 1) (void) read_blob_unsigned(&p, &len); else (void) read_blob_signed(&p, &len);
    VF_ASSERT(len <= len0 && (size_t) (p - (buf + o)) == len0 - len, "the cursor advances by exactly what is taken from the remaining length");
    VF_ASSERT(len0 - len == 0 || len0 - len == 1 || len0 - len == 2 || len0 - len == 4, "a compressed integer is 1, 2 or 4 bytes");
  }
  else
  {
    uint32_t heap_size = vf_u32(), idx = vf_u32();
    VF_ASSUME(idx <= 64); /* keeps heap_offset + index a representable pointer; larger indices are rejected by `index < heap_size` or the range test */
    char* s = pe_get_dotnet_string(&pe, buf + o, heap_size, idx);
    if (s != NULL)
    {
      VF_ASSERT((uint8_t*) s >= buf && (uint8_t*) s < buf + VF_N && idx < heap_size, "a returned string starts inside the data and inside the heap");
      int term = 0;
      for (int i = 0; i < VF_N; i++)
        if (buf + i >= (uint8_t*) s && buf[i] == 0) term = 1;
      VF_ASSERT(term, "a returned string is NUL-terminated inside the data");
    }
  }
  VF_WITNESS("end");
  return 0;
}
