/* C06.H2 - pe.c pe_parse_exports (+ pe_utils.c pe_get_directory_entry, pe_rva_to_offset, available_space) on a data
 * window in which every export-related field is attacker-controlled.
 * Layout of the VF_N = 176 data bytes (pe->data; the object is exactly this large, so any access outside it is reported):
 *   0..127    NT headers prefix, concrete: PE32 magic, NumberOfSections = 0 (every RVA maps straight to the same file
 *             offset - "everything before the first section"), export data directory -> RVA 128, Size symbolic
 *   128..167  IMAGE_EXPORT_DIRECTORY, symbolic: Name, Base, AddressOfFunctions/Names/NameOrdinals are arbitrary 32-bit
 *             values (inside, at the very end of, or far outside the data); NumberOfFunctions, NumberOfNames <= VF_K
 *   168..175  symbolic bytes (tables, names, forwarder strings live here - or anywhere else, also overlapping)
 * The object tree is a sink: integers are dropped, every string handed over must lie inside the data.
 * Termination: --unwinding-assertions with the loop bounds derived from VF_K.
 */
#include "vf.h"
#include <string.h>
#include "vf.h"
#ifndef VF_N
#define VF_N 176
#endif
#ifndef VF_K
#define VF_K 2
#endif
/* contract stub of strnlen (it reads at most [s, s+n)): both ends of that range are read here, so that a range reaching
   outside the data is reported, and ANY length <= n is returned (a superset of what the real function can return) */
static volatile char vf_touch;
size_t strnlen(const char* s, size_t n)
{
  if (n == 0) return 0;
  vf_touch = s[0];
  vf_touch = s[n - 1];
  size_t r = (size_t) vf_u32();
  VF_ASSUME(r <= n);
  return r;
}
#include "modules/pe/pe_utils.c"
#include "modules/pe/pe.c"

static uint8_t buf[VF_N];
static unsigned vf_strings, vf_ints;

int yr_object_set_integer(int64_t value, YR_OBJECT* object, const char* field, ...)
{
  vf_ints++;
  return ERROR_SUCCESS;
}
int yr_object_set_string(const char* value, size_t len, YR_OBJECT* object, const char* field, ...)
{
  vf_strings++;
  if (value != NULL)
    VF_ASSERT((const uint8_t*) value >= buf && len <= VF_N && (const uint8_t*) value + len <= buf + VF_N, "a string handed to the object tree lies inside the scanned data");
  return ERROR_SUCCESS;
}

int main(void)
{
  static YR_OBJECT obj;
  static PE pe;
  buf[24] = 0x0b; /* IMAGE_NT_OPTIONAL_HDR32_MAGIC */
  buf[25] = 0x01;
  buf[120] = 128; /* DataDirectory[EXPORT].VirtualAddress = 128 */
  for (int i = 124; i < 128; i++) buf[i] = vf_u8(); /* .Size */
  for (int i = 128; i < VF_N; i++) buf[i] = vf_u8();
  PIMAGE_EXPORT_DIRECTORY e = (PIMAGE_EXPORT_DIRECTORY) (buf + 128);
  VF_ASSUME(e->NumberOfFunctions <= VF_K && e->NumberOfNames <= VF_K);
  pe.data = buf;
  pe.data_size = VF_N;
  pe.header = (PIMAGE_NT_HEADERS32) buf;
  pe.object = &obj;
  pe_parse_exports(&pe);
  VF_ASSERT(vf_ints >= 1, "number_of_exports is always set");
  VF_WITNESS("end");
  return 0;
}
