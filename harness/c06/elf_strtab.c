/* C06.H1 - elf.c str_table_entry / is_valid_ptr: the string-table lookup every ELF section name, symbol name and dynamic
 * symbol name goes through, on an arbitrary table window inside an 8-byte object (so that a table that ENDS at the end of
 * the data, is empty, or is inverted is a point of the input space) and an arbitrary index.
 * Asserted: no access outside the data; a non-NULL result lies inside [base, limit) and is NUL-terminated before limit.
 */
#include "vf.h"
#include <string.h>
size_t strnlen(const char* s, size_t n)
{
  size_t i = 0;
  while (i < n && s[i] != 0) i++;
  return i;
}
#include "modules/elf/elf.c"
#define VF_N 8
int main(void)
{
  static char buf[VF_N];
  for (int i = 0; i < VF_N; i++) buf[i] = (char) vf_u8();
  unsigned b = vf_range(0, VF_N), l = vf_range(0, VF_N);
  int index = (int) vf_u32();
  const char* r = str_table_entry(buf + b, buf + l, index);
  if (r != NULL)
  {
    VF_ASSERT(r >= buf + b && r < buf + l, "the entry lies inside the string table");
    int terminated = 0;
    for (int i = 0; i < VF_N; i++)
      if (buf + i >= r && buf + i < buf + l && buf[i] == 0) terminated = 1;
    VF_ASSERT(terminated, "the entry is NUL-terminated inside the table");
    VF_ASSERT(index >= 0 && r == buf + b + index, "the entry is the one at the requested index");
  }
  /* is_valid_ptr: accepted ranges lie inside the data */
  uint64_t psz = vf_u64();
  unsigned po = vf_range(0, VF_N);
  if (is_valid_ptr(buf, VF_N, buf + po, psz)) VF_ASSERT(po + psz <= VF_N, "a range accepted by is_valid_ptr lies inside the data");
  VF_WITNESS("end");
  return 0;
}
