/* C11.H2 - verdict bits produced by the REAL VM (exec.c OP_INIT_RULE / OP_MATCH_RULE / OP_PUSH_RULE)
 * on the per-rule bytecode skeleton  INIT_RULE i; <condition>; MATCH_RULE i  for 3 rules.
 * Conditions: rule 0 and 1 push a symbolic constant (any value incl. undefined); rule 2 is `rule0` (OP_PUSH_RULE 0).
 * required_eval pattern (8), the DISABLED flag of rule 0 (2) and the GLOBAL flags (8) are enumerated concretely so that the
 * instruction pointer stays concrete (DESIGN section 4, P10/P14); global flags, namespaces, values symbolic.
 * Oracle: a rule matches iff it is evaluated and its condition is defined and non-zero; a global rule that
 * does not match (false, undefined, skipped or disabled) marks its namespace unsatisfied.
 */
#define VF_CODE_MAX 96
#include "common/exec_env.h"

#define NR 3
static YR_RULE rules_table[NR + 1];
static YR_NAMESPACE ns[2];
static YR_RULES rules;
static YR_SCAN_CONTEXT ctx;
static YR_BITMASK rule_matches[1], ns_unsat[1], required_eval[1];
static YR_ARENA rules_arena;

int main(void)
{
  uint64_t v0 = vf_u64(), v1 = vf_u64();
  uint8_t g[NR], nsi[NR];
  for (int i = 0; i < NR; i++) nsi[i] = vf_u8() & 1;
  for (int pat = VF_PAT_LO; pat < VF_PAT_LO + 16; pat++)
  {
    int req = pat & 7, dis0 = (pat >> 3) & 1;
    /* the GLOBAL bits are enumerated too: a symbolic bit in `flags` keeps CBMC from folding `flags & DISABLED` */
    for (int i = 0; i < NR; i++) g[i] = (pat >> (4 + i)) & 1;
    vf_cp = 0;
    emit_rule_begin(0); emit_push(v0); emit_rule_end(0);
    emit_rule_begin(1); emit_push(v1); emit_rule_end(1);
    emit_rule_begin(2); emit_op64(OP_PUSH_RULE, 0); emit_rule_end(2);
    emit8(OP_HALT);
    memset(&ctx, 0, sizeof(ctx));
    memset(&rules, 0, sizeof(rules));
    memset(rules_table, 0, sizeof(rules_table));
    for (int i = 0; i < NR; i++)
    {
      rules_table[i].flags = (g[i] ? RULE_FLAGS_GLOBAL : 0) | ((i == 0 && dis0) ? RULE_FLAGS_DISABLED : 0);
      rules_table[i].ns = &ns[nsi[i]];
    }
    rules_table[NR].flags = RULE_FLAGS_NULL;
    ns[0].idx = 0; ns[1].idx = 1;
    rule_matches[0] = ns_unsat[0] = 0;
    required_eval[0] = (YR_BITMASK) req;
    rules.rules_table = rules_table;
    rules.num_rules = NR;
    rules.code_start = vf_code;
    memset(&rules_arena, 0, sizeof(rules_arena));
    rules_arena.num_buffers = 1;
    rules_arena.buffers[0].data = (uint8_t*) rules_table;
    rules_arena.buffers[0].size = rules_arena.buffers[0].used = sizeof(rules_table);
    rules.arena = &rules_arena;
    ctx.rules = &rules;
    ctx.rule_matches_flags = rule_matches;
    ctx.ns_unsatisfied_flags = ns_unsat;
    ctx.required_eval = required_eval;
    int r = yr_execute_code(&ctx);
    VF_ASSERT(r == ERROR_SUCCESS, "evaluation succeeds");
    /* oracle */
    int ev[NR], m[NR];
    uint64_t cond[NR];
    ev[0] = ((req >> 0) & 1) && !dis0;
    cond[0] = v0;
    m[0] = ev[0] && cond[0] != 0xFFFABADAFABADAFFULL && cond[0] != 0;
    ev[1] = (req >> 1) & 1;
    cond[1] = v1;
    m[1] = ev[1] && cond[1] != 0xFFFABADAFABADAFFULL && cond[1] != 0;
    ev[2] = (req >> 2) & 1;
    /* a reference to a disabled rule is undefined, otherwise it is that rule's verdict */
    m[2] = ev[2] && !dis0 && m[0];
    int unsat[2] = {0, 0};
    for (int i = 0; i < NR; i++)
    {
      VF_ASSERT(((rule_matches[0] >> i) & 1) == (YR_BITMASK) m[i], "rule verdict bit = evaluated and condition defined and true");
      if (g[i] && !m[i]) unsat[nsi[i]] = 1;
    }
    VF_ASSERT(((ns_unsat[0] >> 0) & 1) == (YR_BITMASK) unsat[0] && ((ns_unsat[0] >> 1) & 1) == (YR_BITMASK) unsat[1],
              "a namespace is unsatisfied iff one of its global rules does not match (false, undefined, skipped or disabled)");
  }
  VF_WITNESS("end");
  return 0;
}
