/* C11.H3 - "each imported module produces exactly one import and one imported message per scan; returning error in
 * response to a module message fails the scan with callback-error": the REAL yr_modules_load (modules.c) with the
 * real hash table and object code, a module table holding one dummy module (harness/c11/modlist/modules/module_list),
 * called twice for the same module within one scan (two rules importing it), callback answers symbolic.
 */
#include "vf.h"
#include <assert.h>
#include <string.h>
#include <stdlib.h>
#include <yara/types.h>
#include <yara/modules.h>
#include <yara/hash.h>
#include <yara/object.h>
#include <yara/error.h>
#include <yara/libyara.h>
int yr_get_configuration_uint32(YR_CONFIG_NAME name, uint32_t* value) { *value = 16; return ERROR_SUCCESS; }
#include "mem.c"
#include "hash.c"
#include "strutils.c"
#include "sizedstr.c"
#include "object.c"
static int decl_calls, load_calls, load_result;
int vfmod__declarations(YR_OBJECT* module) { decl_calls++; return ERROR_SUCCESS; }
int vfmod__load(YR_SCAN_CONTEXT* context, YR_OBJECT* module, void* module_data, size_t module_data_size) { load_calls++; return load_result; }
int vfmod__unload(YR_OBJECT* main_structure) { return ERROR_SUCCESS; }
int vfmod__initialize(YR_MODULE* module) { return ERROR_SUCCESS; }
int vfmod__finalize(YR_MODULE* module) { return ERROR_SUCCESS; }
#include "modules.c"

static int msgs[6], nmsg, answers[6];
static int vf_cb(YR_SCAN_CONTEXT* c, int msg, void* data, void* ud)
{
  int k = nmsg < 6 ? nmsg : 5;
  msgs[k] = msg;
  nmsg++;
  return answers[k];
}

int main(void)
{
  static YR_SCAN_CONTEXT ctx;
  int rc = yr_hash_table_create(4, &ctx.objects_table);
  VF_ASSUME(rc == ERROR_SUCCESS);
  ctx.callback = vf_cb;
  for (int i = 0; i < 6; i++) answers[i] = (int) vf_range(0, 2);
  load_result = vf_bool() ? ERROR_SUCCESS : ERROR_INSUFFICIENT_MEMORY;
  int r1 = yr_modules_load("vfmod", &ctx);
  int n1 = nmsg;
  /* oracle for the first import */
  if (answers[0] == CALLBACK_ERROR)
  {
    VF_ASSERT(r1 == ERROR_CALLBACK_ERROR && n1 == 1 && msgs[0] == CALLBACK_MSG_IMPORT_MODULE, "error in response to the import message fails with callback-error, nothing else is sent");
    VF_ASSERT(yr_hash_table_lookup(ctx.objects_table, "vfmod", NULL) == NULL && load_calls == 0, "the module is not loaded after a refused import");
  }
  else if (load_result != ERROR_SUCCESS)
  {
    VF_ASSERT(r1 == load_result && n1 == 1, "a failing module load is reported and no imported message is sent");
  }
  else
  {
    VF_ASSERT(n1 == 2 && msgs[0] == CALLBACK_MSG_IMPORT_MODULE && msgs[1] == CALLBACK_MSG_MODULE_IMPORTED, "exactly one import and one imported message, in that order");
    VF_ASSERT(r1 == (answers[1] == CALLBACK_ERROR ? ERROR_CALLBACK_ERROR : ERROR_SUCCESS), "error in response to the imported message fails with callback-error");
    VF_ASSERT(load_calls == 1 && decl_calls == 1, "the module is declared and loaded once");
    /* a second rule importing the same module in the same scan */
    int r2 = yr_modules_load("vfmod", &ctx);
    VF_ASSERT(r2 == ERROR_SUCCESS && nmsg == 2 && load_calls == 1, "a module already imported in this scan produces no further message and is not loaded again");
  }
  VF_WITNESS("end");
  return 0;
}
