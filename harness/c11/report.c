/* C11.H1 - the reporting loop of the REAL yr_scanner_scan_mem_blocks (scanner.c), with
 * yr_execute_code replaced by a stub that leaves ARBITRARY verdict bits (rule_matches_flags,
 * ns_unsatisfied_flags) or fails with an arbitrary error.
 * Symbolic: flags (private/global) and namespace of 3 rules, the 4 report-flag settings, the verdict bits,
 * the callback's answer to every message.   Oracle: the documented protocol (docs/capi.rst "Scanning data").
 */
#define VF_STUB_EXEC 1
#include "common/scan_env.h"
#include "mem.c"
#include "strutils.c"
#include "scan.c"
#include "scanner.c"

#define NR 3
static YR_RULE rules_table[NR + 1];
static YR_NAMESPACE ns[2];
static YR_RULES rules;
static YR_SCANNER sc;
/* more strings than fit in one bitmask slot, fewer rules/namespaces than that: a clean-up that sizes one bitmap by
   the wrong count leaves stale bits behind */
#define NS_ 70
static YR_BITMASK rule_matches[1], ns_unsat[1], required_eval[1], temp_disabled[2], no_required[1];
static YR_MATCHES matches[NS_], unconfirmed[NS_];

/* stub: verdict bits arbitrary */
static uint64_t st_matches, st_unsat;
static int st_result;
int yr_execute_code(YR_SCAN_CONTEXT* c)
{
  c->rule_matches_flags[0] = st_matches;
  c->ns_unsatisfied_flags[0] = st_unsat;
  return st_result;
}

#define MAXMSG 6
static int tr_msg[MAXMSG];
static void* tr_data[MAXMSG];
static int tr_n;
static int answers[MAXMSG];
static int vf_cb(YR_SCAN_CONTEXT* c, int msg, void* data, void* ud)
{
  VF_ASSERT(tr_n < MAXMSG, "at most one message per rule plus the final one");
  int k = tr_n < MAXMSG ? tr_n : MAXMSG - 1;
  tr_msg[k] = msg;
  tr_data[k] = data;
  tr_n++;
  return answers[k];
}

static YR_MEMORY_BLOCK* it_none(YR_MEMORY_BLOCK_ITERATOR* it) { return NULL; }

int main(void)
{
  vf_init_tables();
  memset(rules_table, 0, sizeof(rules_table));
  for (int i = 0; i < NR; i++)
  {
    rules_table[i].flags = vf_u8() & (RULE_FLAGS_PRIVATE | RULE_FLAGS_GLOBAL);
    rules_table[i].ns = &ns[vf_u8() & 1];
  }
  rules_table[NR].flags = RULE_FLAGS_NULL;
  ns[0].idx = 0;
  ns[1].idx = 1;
  memset(&rules, 0, sizeof(rules));
  rules.rules_table = rules_table;
  rules.num_rules = NR;
  rules.num_namespaces = 2;
  rules.num_strings = NS_;
  rules.no_required_strings = no_required;
  memset(&sc, 0, sizeof(sc));
  sc.rules = &rules;
  int rep = vf_u8() & (SCAN_FLAGS_REPORT_RULES_MATCHING | SCAN_FLAGS_REPORT_RULES_NOT_MATCHING);
  sc.flags = SCAN_FLAGS_NO_TRYCATCH | rep;
  sc.callback = vf_cb;
  sc.matches = matches;
  sc.unconfirmed_matches = unconfirmed;
  sc.rule_matches_flags = rule_matches;
  sc.ns_unsatisfied_flags = ns_unsat;
  sc.required_eval = required_eval;
  sc.strings_temp_disabled = temp_disabled;
  /* what a scan may have written before it reaches its exit: arbitrary disabled-string bits and match lists */
  temp_disabled[0] = vf_u64();
  temp_disabled[1] = vf_u64() & 0x3F;
  size_t dirty = vf_range(0, NS_ - 1);
  static YR_MATCH some;
  matches[dirty].head = matches[dirty].tail = &some;
  matches[dirty].count = 1;
  unconfirmed[dirty].head = &some;
  st_matches = vf_u8() & 7;
  st_unsat = vf_u8() & 3;
  st_result = vf_bool() ? ERROR_SUCCESS : (int) vf_range(1, 60);
  for (int i = 0; i < MAXMSG; i++)
  {
    answers[i] = (int) vf_range(0, 2); /* CALLBACK_CONTINUE 0, CALLBACK_ABORT 1, CALLBACK_ERROR 2 */
  }
  YR_MEMORY_BLOCK_ITERATOR it;
  memset(&it, 0, sizeof(it));
  it.first = it_none;
  it.next = it_none;
  it.last_error = ERROR_SUCCESS;

  int r = yr_scanner_scan_mem_blocks(&sc, &it);

  /* ---- oracle ---- */
  if (st_result != ERROR_SUCCESS)
  {
    VF_ASSERT(r == st_result && tr_n == 0, "an evaluation error is returned and nothing is reported");
  }
  else
  {
    int k = 0, stopped = 0, expect_r = ERROR_SUCCESS;
    for (int i = 0; i < NR; i++)
    {
      if (stopped) break;
      int matching = ((st_matches >> i) & 1) && !((st_unsat >> rules_table[i].ns->idx) & 1);
      int msg = matching ? CALLBACK_MSG_RULE_MATCHING : CALLBACK_MSG_RULE_NOT_MATCHING;
      int wanted = matching ? (rep & SCAN_FLAGS_REPORT_RULES_MATCHING) : (rep & SCAN_FLAGS_REPORT_RULES_NOT_MATCHING);
      if (!wanted || (rules_table[i].flags & RULE_FLAGS_PRIVATE)) continue;
      VF_ASSERT(k < tr_n, "every non-private rule selected by the report flags is reported");
      if (k >= tr_n) break;
      VF_ASSERT(tr_msg[k] == msg && tr_data[k] == (void*) &rules_table[i], "rules are reported once, in definition order, with the right verdict");
      if (answers[k] == CALLBACK_ABORT) { stopped = 1; expect_r = ERROR_SUCCESS; }
      else if (answers[k] == CALLBACK_ERROR) { stopped = 1; expect_r = ERROR_CALLBACK_ERROR; }
      k++;
    }
    if (!stopped)
    {
      VF_ASSERT(k < tr_n && tr_msg[k < MAXMSG ? k : 0] == CALLBACK_MSG_SCAN_FINISHED && tr_data[k < MAXMSG ? k : 0] == NULL, "scan-finished comes last");
      k++;
    }
    VF_ASSERT(tr_n == k, "no message after abort/error, no extra message, private rules never reported");
    VF_ASSERT(r == expect_r, "abort yields success, error yields ERROR_CALLBACK_ERROR");
  }
  /* end-of-scan state (also used by C10): verdict bits are cleared */
  VF_ASSERT(rule_matches[0] == 0 && ns_unsat[0] == 0 && required_eval[0] == 0 && sc.matches_notebook == NULL, "scan state is cleaned on every exit");
  VF_ASSERT(temp_disabled[0] == 0 && temp_disabled[1] == 0, "no disabled-string bit survives a scan, whatever the number of strings");
  {
    size_t k = vf_range(0, NS_ - 1); /* arbitrary string index */
    VF_ASSERT(matches[k].head == NULL && matches[k].count == 0 && unconfirmed[k].head == NULL, "no match list survives a scan");
  }
  VF_WITNESS("end");
  return 0;
}
