/* C01 layer 1 - atom extraction for text strings (libyara/atoms.c), all strings up to VF_L bytes,
 * ANY atom quality function (nondeterministic result per call => covers the heuristic and every quality table).
 * Property: whichever substring is picked, (atom bytes, backtrack) is a substring of EVERY occurrence of the
 * string's ascii / wide / case-variant / xor-ed form at the recorded distance from its start - so indexing by
 * atom can never lose a match (necessity), and the list is non-empty for each requested form.
 *   -DVF_MODE=1  yr_atoms_extract_from_string, flags in {ascii, wide, ascii|wide} (VF_FLAGS)
 *   -DVF_MODE=2  _yr_atoms_wide on one arbitrary atom
 *   -DVF_MODE=3  _yr_atoms_xor on one arbitrary atom, arbitrary min, max-min <= 3
 *   -DVF_MODE=4  _yr_atoms_case_insensitive on one arbitrary atom of length <= VF_L
 */
#include "vf.h"
#include <assert.h>
#include <string.h>
#include <stdlib.h>
#include <yara/types.h>
#include <yara/atoms.h>
#include <yara/error.h>
#include "mem.c"
#include "atoms.c"

#ifndef VF_L
#define VF_L 6
#endif

static int vf_quality(YR_ATOMS_CONFIG* config, YR_ATOM* atom)
{
  return vf_u8(); /* any quality function: 0..255 */
}

static YR_ATOM_LIST_ITEM* mk_item(int maxlen)
{
  YR_ATOM_LIST_ITEM* it = malloc(sizeof(YR_ATOM_LIST_ITEM));
  __CPROVER_assume(it != NULL);
  memset(it, 0, sizeof(*it));
  it->atom.length = (uint8_t) vf_range(1, maxlen);
  for (int i = 0; i < YR_MAX_ATOM_LENGTH; i++)
  {
    it->atom.bytes[i] = vf_u8();
    it->atom.mask[i] = 0xFF;
  }
  it->backtrack = (uint16_t) vf_range(0, 8);
  it->next = NULL;
  return it;
}

int main(void)
{
#if VF_MODE == 1
  static uint8_t s[VF_L];
  int32_t len = (int32_t) vf_range(1, VF_L);
  vf_fill(s, VF_L);
  YR_ATOMS_CONFIG cfg;
  memset(&cfg, 0, sizeof(cfg));
  cfg.get_atom_quality = vf_quality;
  YR_MODIFIER mod;
  memset(&mod, 0, sizeof(mod));
  mod.flags = VF_FLAGS;
  YR_ATOM_LIST_ITEM* atoms = NULL;
  int minq = 0;
  int r = yr_atoms_extract_from_string(&cfg, s, len, mod, &atoms, &minq);
  VF_ASSERT(r == ERROR_SUCCESS, "extraction succeeds when memory is available");
  int n_ascii = 0, n_wide = 0, n = 0;
  for (YR_ATOM_LIST_ITEM* it = atoms; it != NULL; it = it->next)
  {
    n++;
    VF_ASSERT(it->atom.length >= 1 && it->atom.length <= YR_MAX_ATOM_LENGTH, "atom length in 1..4");
    int is_ascii = (VF_FLAGS & STRING_FLAGS_ASCII) != 0 && it->backtrack + it->atom.length <= len;
    int is_wide = (VF_FLAGS & STRING_FLAGS_WIDE) != 0 && it->backtrack + it->atom.length <= 2 * len;
    for (int i = 0; i < YR_MAX_ATOM_LENGTH; i++)
    {
      if (i >= it->atom.length) break;
      VF_ASSERT(it->atom.mask[i] == 0xFF, "text atoms are unmasked");
      int p = it->backtrack + i;
      if (is_ascii && it->atom.bytes[i] != s[p < VF_L ? p : 0]) is_ascii = 0;
      if (is_wide)
      {
        uint8_t wb = (p % 2 == 0) ? s[(p / 2) < VF_L ? (p / 2) : 0] : 0;
        if (it->atom.bytes[i] != wb) is_wide = 0;
      }
    }
    VF_ASSERT(is_ascii || is_wide, "every atom is a substring, at its backtrack distance, of the ascii or of the wide form of the string");
    n_ascii += is_ascii;
    n_wide += is_wide;
  }
  VF_ASSERT(n >= 1 && n <= 2, "one atom per requested form");
  if (VF_FLAGS & STRING_FLAGS_ASCII) VF_ASSERT(n_ascii >= 1, "an atom exists for the ascii form");
  if (VF_FLAGS & STRING_FLAGS_WIDE) VF_ASSERT(n_wide >= 1, "an atom exists for the wide form");
  yr_atoms_list_destroy(atoms);
#elif VF_MODE == 2
  YR_ATOM_LIST_ITEM* in = mk_item(YR_MAX_ATOM_LENGTH);
  YR_ATOM_LIST_ITEM* out = NULL;
  int r = _yr_atoms_wide(in, &out);
  VF_ASSERT(r == ERROR_SUCCESS && out != NULL && out->next == NULL, "one wide atom per input atom");
  int wl = in->atom.length * 2 < YR_MAX_ATOM_LENGTH ? in->atom.length * 2 : YR_MAX_ATOM_LENGTH;
  VF_ASSERT(out->atom.length == wl, "wide atom length = min(2*len, 4)");
  VF_ASSERT(out->backtrack == in->backtrack * 2, "wide backtrack doubles");
  for (int i = 0; i < YR_MAX_ATOM_LENGTH; i++)
  {
    if (i >= wl) break;
    VF_ASSERT(out->atom.bytes[i] == ((i % 2 == 0) ? in->atom.bytes[i / 2] : 0) && out->atom.mask[i] == 0xFF,
              "wide atom is the zero-interleaved input atom");
  }
#elif VF_MODE == 3
  YR_ATOM_LIST_ITEM* in = mk_item(YR_MAX_ATOM_LENGTH);
  uint8_t min = vf_u8();
  uint8_t d = (uint8_t) vf_range(0, 3);
  VF_ASSUME((unsigned) min + d <= 255);
  uint8_t max = (uint8_t) (min + d);
  YR_ATOM_LIST_ITEM* out = NULL;
  int r = _yr_atoms_xor(in, min, max, &out);
  VF_ASSERT(r == ERROR_SUCCESS, "xor stage succeeds");
  uint8_t k = vf_u8(); /* arbitrary key in range: its atom must exist */
  VF_ASSUME(k >= min && k <= max);
  int found = 0, n = 0;
  for (YR_ATOM_LIST_ITEM* it = out; it != NULL; it = it->next)
  {
    n++;
    VF_ASSERT(it->atom.length == in->atom.length && it->backtrack == in->backtrack, "xor atoms keep length and backtrack");
    uint8_t kk = it->atom.bytes[0] ^ in->atom.bytes[0];
    VF_ASSERT(kk >= min && kk <= max, "no atom for a key outside the range");
    int all = 1, isk = 1;
    for (int i = 0; i < YR_MAX_ATOM_LENGTH; i++)
    {
      if (i >= in->atom.length) break;
      if (it->atom.bytes[i] != (in->atom.bytes[i] ^ kk)) all = 0;
      if (it->atom.bytes[i] != (in->atom.bytes[i] ^ k)) isk = 0;
    }
    VF_ASSERT(all, "each xor atom is the input atom xor-ed with ONE key");
    found |= isk;
  }
  VF_ASSERT(found, "an atom exists for every key of the range");
  VF_ASSERT(n == d + 1, "exactly one atom per key");
#elif VF_MODE == 4
  YR_ATOM_LIST_ITEM* in = mk_item(VF_L);
  in->atom.length = VF_L; /* concrete length per query (1..4 are separate queries): keeps the recursion depth concrete */
  YR_ATOM_LIST_ITEM* out = NULL;
  int r = _yr_atoms_case_insensitive(in, &out);
  VF_ASSERT(r == ERROR_SUCCESS, "case stage succeeds");
  /* arbitrary case variant v of the input (mask over positions) */
  uint8_t mask = vf_u8();
  uint8_t v[YR_MAX_ATOM_LENGTH];
  int differs = 0;
  for (int i = 0; i < YR_MAX_ATOM_LENGTH; i++)
  {
    uint8_t c = in->atom.bytes[i];
    v[i] = c;
    if (i < in->atom.length && ((mask >> i) & 1) && ((c >= 'a' && c <= 'z') || (c >= 'A' && c <= 'Z')))
    {
      v[i] = c ^ 0x20;
      differs = 1;
    }
  }
  int found = 0;
  for (YR_ATOM_LIST_ITEM* it = out; it != NULL; it = it->next)
  {
    VF_ASSERT(it->atom.length == in->atom.length && it->backtrack == in->backtrack, "case atoms keep length and backtrack");
    int isv = 1;
    for (int i = 0; i < YR_MAX_ATOM_LENGTH; i++)
    {
      if (i >= in->atom.length) break;
      uint8_t c = in->atom.bytes[i], o = it->atom.bytes[i];
      int letter = (c >= 'a' && c <= 'z') || (c >= 'A' && c <= 'Z');
      VF_ASSERT(o == c || (letter && o == (c ^ 0x20)), "each case atom differs from the input only by letter case");
      if (o != v[i]) isv = 0;
    }
    found |= isv;
  }
  VF_ASSERT(!differs || found, "every case variant other than the input itself is generated");
#endif
  VF_WITNESS("end");
  return 0;
}
