/* C01 layer 2 - scan-time exactness of one text string on a compiled image.
 * Real code: scanner.c _yr_scanner_scan_mem_block (AC walk), scan.c yr_scan_verify_match,
 * _yr_scan_verify_literal_match, compare functions, _yr_scan_match_callback (fullword),
 * _yr_scan_add_match_to_list.  Image: img_img.h (vfdump of the template rule, real compiler).
 * Symbolic: buffer bytes and length (<= VF_N).   Oracle: spec/text.h.
 */
#include "common/scan_env.h"
#include "spec/text.h"
#include "mem.c"
#include "strutils.c"
#include "scan.c"
#include "scanner.c"
#include "img_img.h"
#include "tmpl.h"

#ifndef VF_N
#define VF_N 6
#endif

static YR_SCANNER sc;
static YR_MATCHES matches[IMG_NUM_STRINGS], unconfirmed[IMG_NUM_STRINGS];
static YR_BITMASK rule_matches[1], ns_unsat[1], required_eval[1], temp_disabled[1];
static int cb_calls;
static int vf_cb(YR_SCAN_CONTEXT* c, int msg, void* data, void* ud)
{
  cb_calls++;
  return CALLBACK_CONTINUE;
}

/* spec: is there an occurrence of the template string at off ?  returns bitmask 1=ascii form, 2=wide form; key via *k */
static int spec_occ(const uint8_t* buf, size_t n, size_t off, uint8_t* key_a, uint8_t* key_w)
{
  int r = 0;
#if T_XOR
  for (unsigned k = T_XOR_MIN; k <= T_XOR_MAX; k++)
  {
#if T_ASCII
    if (!(r & 1) && sp_ascii_at(buf, n, off, T_str, T_LEN, T_NOCASE, (uint8_t) k)) { r |= 1; *key_a = (uint8_t) k; }
#endif
#if T_WIDE
    if (!(r & 2) && sp_wide_at(buf, n, off, T_str, T_LEN, T_NOCASE, (uint8_t) k)) { r |= 2; *key_w = (uint8_t) k; }
#endif
  }
#else
#if T_ASCII
  if (sp_ascii_at(buf, n, off, T_str, T_LEN, T_NOCASE, 0)) r |= 1;
#endif
#if T_WIDE
  if (sp_wide_at(buf, n, off, T_str, T_LEN, T_NOCASE, 0)) r |= 2;
#endif
  *key_a = *key_w = 0;
#endif
#if T_FULLWORD
  if ((r & 1) && !sp_fullword_ascii(buf, n, off, T_LEN)) r &= ~1;
  if ((r & 2) && !sp_fullword_wide(buf, n, off, 2 * T_LEN)) r &= ~2;
#endif
  return r;
}

int main(void)
{
  static uint8_t buf[VF_N];
  vf_init_tables();
  IMG_init();
  size_t n = vf_range(0, VF_N);
  vf_fill(buf, VF_N);

  memset(&sc, 0, sizeof(sc));
  sc.rules = &IMG_rules_obj;
  sc.flags = SCAN_FLAGS_NO_TRYCATCH;
  sc.callback = vf_cb;
  sc.matches = matches;
  sc.unconfirmed_matches = unconfirmed;
  sc.rule_matches_flags = rule_matches;
  sc.ns_unsatisfied_flags = ns_unsat;
  sc.required_eval = required_eval;
  sc.strings_temp_disabled = temp_disabled;
  sc.entry_point = YR_UNDEFINED;
  sc.file_size = YR_UNDEFINED;
  yr_notebook_create(0, &sc.matches_notebook);

  YR_MEMORY_BLOCK block;
  block.size = n;
  block.base = 0;
  block.context = buf;
  block.fetch_data = NULL;

  int r = _yr_scanner_scan_mem_block(&sc, buf, &block);
  VF_ASSERT(r == ERROR_SUCCESS, "scanning a block succeeds");

  YR_MATCH* m = matches[T_STRING_IDX].head;
  int expected = 0;
  for (size_t off = 0; off < VF_N; off++)
  {
    if (off >= n) break;
    uint8_t ka = 0, kw = 0;
    int occ = spec_occ(buf, n, off, &ka, &kw);
    if (occ)
    {
      expected++;
      VF_ASSERT(m != NULL, "every documented occurrence is reported (nothing missed)");
      if (m == NULL) break;
      VF_ASSERT(m->base + m->offset == off, "matches are reported in ascending order, none extra, none duplicated");
      VF_ASSERT(((occ & 1) && m->match_length == T_LEN && (!T_XOR || m->xor_key == ka)) ||
                    ((occ & 2) && m->match_length == 2 * T_LEN && (!T_XOR || m->xor_key == kw)),
                "match length and xor key are those of a documented occurrence at that offset");
      m = m->next;
    }
  }
  VF_ASSERT(m == NULL, "no match beyond the documented occurrences");
  VF_ASSERT(matches[T_STRING_IDX].count == expected, "match count equals the number of documented occurrences");
  VF_ASSERT(expected == 0 || (required_eval[0] & (1UL << IMG_strings[T_STRING_IDX].rule_idx)), "a match marks its rule for evaluation");
  VF_WITNESS("end");
  return 0;
}
