/* C01 layer 3 - the base64 / base64wide modifier (libyara/base64.c): _yr_modified_base64_encode followed by
 * _yr_base64_get_base64_substring yields, for each of the three alignments i in {0,1,2}, the string that is searched
 * for.  Necessity ("nothing is missed"): whenever the plain string S is base64-encoded with ANY i bytes before it and
 * ANY bytes after it, with ANY 64-character alphabet, the reference RFC 4648 encoding of prefix||S||suffix contains
 * that searched string at the expected character position.  Symbolic: S (length 3..VF_L), the i prefix bytes, 3 suffix
 * bytes, the alphabet (64 arbitrary bytes).
 */
#include "vf.h"
#include <assert.h>
#include <string.h>
#include <stdlib.h>
#include <yara/types.h>
#include <yara/sizedstr.h>
#include <yara/error.h>
#include <yara/mem.h>
#include <yara/re.h>
#include <yara/base64.h>
#include "mem.c"
#include "sizedstr.c"
uint8_t yr_lowercase[256];
#include "base64.c"

#ifndef VF_L
#define VF_L 5
#endif
/* reference encoder: standard grouping of 3 bytes into 4 characters (no padding needed: inputs are cut to full groups) */
static void ref_encode(const uint8_t* in, unsigned n, const uint8_t* alpha, uint8_t* out)
{
  for (unsigned g = 0; g < 4; g++)
  {
    if (3 * g + 2 >= n) break;
    uint32_t v = (in[3 * g] << 16) | (in[3 * g + 1] << 8) | in[3 * g + 2];
    out[4 * g] = alpha[(v >> 18) & 63];
    out[4 * g + 1] = alpha[(v >> 12) & 63];
    out[4 * g + 2] = alpha[(v >> 6) & 63];
    out[4 * g + 3] = alpha[v & 63];
  }
}

int main(void)
{
  static uint64_t sbuf[8], abuf[16];
  SIZED_STRING* s = (SIZED_STRING*) sbuf;
  SIZED_STRING* alpha = (SIZED_STRING*) abuf;
  unsigned L = vf_range(3, VF_L);
  s->length = L; s->flags = 0;
  for (unsigned k = 0; k < VF_L; k++) s->c_string[k] = (char) vf_u8();
  alpha->length = 64; alpha->flags = 0;
  for (unsigned k = 0; k < 64; k++) alpha->c_string[k] = (char) vf_u8();
  int i = VF_I;
  int pad = -1;
  SIZED_STRING* enc = _yr_modified_base64_encode(s, alpha, i, &pad);
  VF_ASSUME(enc != NULL);
  SIZED_STRING* sub = _yr_base64_get_base64_substring(enc, 0, i, pad);
  VF_ASSUME(sub != NULL);
  /* an actual occurrence: i arbitrary bytes, then S, then 3 arbitrary bytes; encode whole groups */
  uint8_t plain[2 + VF_L + 3];
  unsigned n = 0;
  for (int k = 0; k < i; k++) plain[n++] = vf_u8();
  for (unsigned k = 0; k < VF_L; k++) { if (k >= L) break; plain[n++] = (uint8_t) s->c_string[k]; }
  for (int k = 0; k < 3; k++) plain[n++] = vf_u8();
  uint8_t ref[16];
  memset(ref, 0, sizeof(ref));
  ref_encode(plain, n, (const uint8_t*) alpha->c_string, ref);
  unsigned leading = i ? i + 1 : 0;
  VF_ASSERT(sub->length >= 1 && leading + sub->length <= 4 * (n / 3), "the searched string is non-empty and lies inside the encoding of prefix||S||suffix");
  for (unsigned k = 0; k < 12; k++)
  {
    if (k >= sub->length) break;
    VF_ASSERT((uint8_t) sub->c_string[k] == ref[leading + k], "every character searched for is determined by S alone: it appears in the encoding whatever surrounds S");
  }
  /* it uses all the characters that are fully determined by S: (8*L - used bits) < 6+6 on both sides */
  unsigned bits_before = (8 * (unsigned) i) % 6 ? 6 - (8 * (unsigned) i) % 6 : 0;
  VF_ASSERT(6 * sub->length + bits_before + 6 > 8 * L, "no fully determined character is left out at the end");
  VF_WITNESS("end");
  return 0;
}
