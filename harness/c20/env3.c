/* C20 - three-level environment of external variables on the REAL code:
 *   rules.c   yr_rules_define_{integer,boolean,float}_variable
 *   scanner.c yr_scanner_create, yr_scanner_define_{integer,boolean,float}_variable
 *   object.c  yr_object_from_external_variable, yr_object_create, yr_object_set_integer/float, yr_object_destroy
 *   hash.c    yr_hash_table_create/add/lookup
 *   exec.c    OP_OBJ_LOAD; OP_OBJ_VALUE  (the value a condition sees)
 * Scenario skeleton (order concrete, every argument symbolic):
 *   D1 = rules-define ; S1 = scanner-create ; D2 = rules-define ; S2 = scanner-create ;
 *   D3 = scanner-define on S1 or S2 ; D4 = rules-define ; read a, b through S1 and S2 with the VM.
 * each define: type in {integer, boolean, float}, identifier ANY string of length 0..3 over {a,b}, value arbitrary.
 * table: "ab", "a" (one a prefix of the other) with symbolic types among {integer, boolean, float} and symbolic compile-time values.
 * Oracle: 3-level map (scanner value, else rules value at creation, else compile-time value); invalid
 * definitions (unknown identifier / incompatible type) return the documented error and change nothing;
 * defining on one scanner never affects the other scanner nor the rule set.
 */
#define VF_CODE_MAX 64
#define VF_NO_SIZEDSTR 1
#include "common/exec_env.h"
#include "hash.c"
#include "strutils.c"
#include "object.c"
#include "rules.c"
#include "scanner.c"

static YR_EXTERNAL_VARIABLE ext[3];
static YR_RULE rules_table[2];
static YR_NAMESPACE ns0;
static YR_RULES rules;
static YR_BITMASK no_required[1];
static YR_ARENA rules_arena;
/* identifiers of the two externals: one is a proper PREFIX of the other, and the symbolic identifiers used in the
   definitions below include the empty string, proper prefixes and extensions of both */
static char id_a[3] = "ab", id_b[2] = "a";

/* model */
typedef struct { int type; uint64_t v; } mval; /* v: raw 64 bits (int or double bits) */
static mval m_rules[2], m_s[2][2];

static int type_compatible_rules(int ext_type, int def_type) { return ext_type == def_type; }
/* at scanner level integer and boolean externals are both integer objects */
static int type_compatible_scanner(int ext_type, int def_type)
{
  int ei = ext_type == EXTERNAL_VARIABLE_TYPE_INTEGER || ext_type == EXTERNAL_VARIABLE_TYPE_BOOLEAN;
  int di = def_type == EXTERNAL_VARIABLE_TYPE_INTEGER || def_type == EXTERNAL_VARIABLE_TYPE_BOOLEAN;
  return (ei && di) || (ext_type == EXTERNAL_VARIABLE_TYPE_FLOAT && def_type == EXTERNAL_VARIABLE_TYPE_FLOAT);
}

static void sym_def(int* type, char id[4], uint64_t* val, int* idx)
{
  *type = (int) vf_range(EXTERNAL_VARIABLE_TYPE_FLOAT, EXTERNAL_VARIABLE_TYPE_BOOLEAN); /* 1 float 2 integer 3 boolean */
  /* arbitrary identifier of length 0..3 over {a,b}: "", "a", "b", "ab", "aa", "aba", ... */
  int len = (int) vf_range(0, 3);
  for (int i = 0; i < 3; i++) id[i] = i < len ? (char) ('a' + (vf_u8() & 1)) : 0;
  id[3] = 0;
  *idx = (len == 2 && id[0] == 'a' && id[1] == 'b') ? 0 : (len == 1 && id[0] == 'a') ? 1 : 2;
  *val = vf_u64();
  if (*type == EXTERNAL_VARIABLE_TYPE_BOOLEAN) *val &= 1;
  if (*type == EXTERNAL_VARIABLE_TYPE_FLOAT)
  {
    double d; memcpy(&d, val, 8);
    VF_ASSUME(d == d); /* not NaN (NaN reads back as undefined by design) */
  }
}

static void do_rules_define(void)
{
  int type, idx; char id[4]; uint64_t val;
  sym_def(&type, id, &val, &idx);
  int r;
  double d; memcpy(&d, &val, 8);
  if (type == EXTERNAL_VARIABLE_TYPE_INTEGER) r = yr_rules_define_integer_variable(&rules, id, (int64_t) val);
  else if (type == EXTERNAL_VARIABLE_TYPE_BOOLEAN) r = yr_rules_define_boolean_variable(&rules, id, (int) val);
  else r = yr_rules_define_float_variable(&rules, id, d);
  if (idx == 2) VF_ASSERT(r == ERROR_INVALID_ARGUMENT, "unknown identifier is rejected at rule-set level");
  else if (!type_compatible_rules(m_rules[idx].type, type)) VF_ASSERT(r == ERROR_INVALID_EXTERNAL_VARIABLE_TYPE, "incompatible type is rejected at rule-set level");
  else
  {
    VF_ASSERT(r == ERROR_SUCCESS, "valid rule-set definition succeeds");
    m_rules[idx].v = val;
  }
}

static YR_SCANNER* do_create(int k)
{
  YR_SCANNER* s = NULL;
  int r = yr_scanner_create(&rules, &s);
  VF_ASSERT(r == ERROR_SUCCESS && s != NULL, "scanner creation succeeds when memory is available");
  m_s[k][0] = m_rules[0];
  m_s[k][1] = m_rules[1];
  return s;
}

/* the object a condition's OP_OBJ_LOAD finds and the value OP_OBJ_VALUE pushes for it
   (the VM fragment itself is checked on all object types in H5) */
static uint64_t read_var(YR_SCANNER* s, char* id, int* defined)
{
  YR_OBJECT* o = (YR_OBJECT*) yr_hash_table_lookup(s->objects_table, id, NULL);
  VF_ASSERT(o != NULL, "every external of the rule set has an object in every scanner");
  *defined = 1;
  if (o == NULL) return 0;
  VF_ASSERT(o->type == OBJECT_TYPE_INTEGER || o->type == OBJECT_TYPE_FLOAT, "object type follows the external's type");
  uint64_t raw;
  memcpy(&raw, &o->value, 8);
  return raw;
}

int main(void)
{
  memset(ext, 0, sizeof(ext));
  ext[0].identifier = id_a;
  ext[1].identifier = id_b;
  for (int j = 0; j < 2; j++)
  {
    /* the declared types are enumerated at harness level (-DVF_TA/-DVF_TB, 9 combinations): a symbolic object
       type makes symex walk yr_object_destroy's recursion on the (unreachable) clean-up paths */
    ext[j].type = j == 0 ? VF_TA : VF_TB;
    uint64_t v = vf_u64();
    if (ext[j].type == EXTERNAL_VARIABLE_TYPE_BOOLEAN) v &= 1;
    if (ext[j].type == EXTERNAL_VARIABLE_TYPE_FLOAT) { double d; memcpy(&d, &v, 8); VF_ASSUME(d == d); }
    ext[j].value.i = (int64_t) v;
    m_rules[j].type = ext[j].type;
    m_rules[j].v = v;
  }
  ext[2].type = EXTERNAL_VARIABLE_TYPE_NULL;
  memset(&rules, 0, sizeof(rules));
  memset(rules_table, 0, sizeof(rules_table));
  rules_table[0].ns = &ns0;
  rules_table[1].flags = RULE_FLAGS_NULL;
  rules.rules_table = rules_table;
  rules.ext_vars_table = ext;
  rules.num_rules = 1; rules.num_namespaces = 1; rules.num_strings = 0;
  rules.no_required_strings = no_required;
  rules.code_start = vf_code;
  memset(&rules_arena, 0, sizeof(rules_arena));
  rules_arena.num_buffers = 1;
  rules_arena.buffers[0].data = (uint8_t*) rules_table;
  rules_arena.buffers[0].size = rules_arena.buffers[0].used = sizeof(rules_table);
  rules.arena = &rules_arena;

  do_rules_define();
  YR_SCANNER* s1 = do_create(0);
  do_rules_define();
  YR_SCANNER* s2 = do_create(1);
  {
    int type, idx; char id[4]; uint64_t val;
    sym_def(&type, id, &val, &idx);
    int k = (int) vf_range(0, 1);
    YR_SCANNER* s = k ? s2 : s1;
    double d; memcpy(&d, &val, 8);
    int r;
    if (type == EXTERNAL_VARIABLE_TYPE_INTEGER) r = yr_scanner_define_integer_variable(s, id, (int64_t) val);
    else if (type == EXTERNAL_VARIABLE_TYPE_BOOLEAN) r = yr_scanner_define_boolean_variable(s, id, (int) val);
    else r = yr_scanner_define_float_variable(s, id, d);
    if (idx == 2) VF_ASSERT(r == ERROR_INVALID_ARGUMENT, "unknown identifier is rejected at scanner level");
    else if (!type_compatible_scanner(m_s[k][idx].type, type)) VF_ASSERT(r == ERROR_INVALID_EXTERNAL_VARIABLE_TYPE, "incompatible type is rejected at scanner level");
    else
    {
      VF_ASSERT(r == ERROR_SUCCESS, "valid scanner definition succeeds");
      m_s[k][idx].v = val;
    }
  }
  do_rules_define();
  /* the rule set holds the rules-level values only */
  for (int j = 0; j < 2; j++)
    VF_ASSERT((uint64_t) ext[j].value.i == m_rules[j].v && ext[j].type == m_rules[j].type, "rule-set values are only changed by valid rule-set definitions");
  /* read everything back through the VM */
  for (int k = 0; k < 2; k++)
    for (int j = 0; j < 2; j++)
    {
      int hit;
      uint64_t v = read_var(k ? s2 : s1, j ? id_b : id_a, &hit);
      VF_ASSERT(v == m_s[k][j].v,
                "a scan sees the scanner's own definition, else the rule-set value at scanner creation, else the compile-time value");
    }
  /* scanners are not destroyed here: destruction/ownership is the subject of H4 and of C16 */
  VF_WITNESS("end");
  return 0;
}
