/* C20.H3 - the value setters behind yr_rules_define_*_variable / yr_scanner_define_*_variable (object.c):
 * after a successful set the object holds EXACTLY the new value, whatever it held before - so the most recent
 * definition at a level is the one the scan sees.  yr_object_set_string with an arbitrary previous value (none, or
 * any string of 0..3 bytes) and an arbitrary new value (NULL, or any string of 0..3 bytes, bytes over a 2-letter
 * alphabet so that prefixes, equal strings and extensions all occur); yr_object_set_integer / yr_object_set_float with
 * arbitrary 64-bit values.  Allocator: mem_fail.h (the allocation may fail: then ERROR_INSUFFICIENT_MEMORY and no
 * dangling value), leak accounting.
 */
#include "vf.h"
#include <assert.h>
#include <string.h>
#include <stdlib.h>
#include <yara/types.h>
#include <yara/object.h>
#include <yara/hash.h>
#include <yara/error.h>
#include <yara/sizedstr.h>
#include <yara/libyara.h>
#include "common/mem_fail.h"
int yr_get_configuration_uint32(YR_CONFIG_NAME name, uint32_t* value) { *value = 16; return ERROR_SUCCESS; }
#include "hash.c"
#include "strutils.c"
#include "sizedstr.c"
#include "object.c"

#define L 3
int main(void)
{
  static YR_OBJECT o;
  o.value.ss = NULL; /* static: zero-initialised (a memset here makes CBMC lose the pointer stored in the value union) */
  o.type = OBJECT_TYPE_STRING;
  char oldv[L + 1], newv[L + 1];
  for (int i = 0; i < L; i++) { oldv[i] = (char) ('a' + (vf_u8() & 1)); newv[i] = (char) ('a' + (vf_u8() & 1)); }
  size_t oldlen = vf_range(0, L), newlen = vf_range(0, L);
  oldv[oldlen] = 0; newv[newlen] = 0;
  int had_old = vf_bool(), new_null = vf_bool();

  vf_fail_enabled = 0;
  if (had_old)
  {
    int r0 = yr_object_set_string(oldv, oldlen, &o, NULL);
    VF_ASSERT(r0 == ERROR_SUCCESS && o.value.ss != NULL && o.value.ss->length == oldlen, "initial value stored");
  }
  vf_fail_enabled = 1;
  int r = yr_object_set_string(new_null ? NULL : newv, newlen, &o, NULL);
  VF_ASSERT(r == ERROR_SUCCESS || r == ERROR_INSUFFICIENT_MEMORY, "set returns success or insufficient memory");
  if (r == ERROR_SUCCESS)
  {
    if (new_null)
      VF_ASSERT(o.value.ss == NULL, "setting NULL clears the value");
    else
    {
      VF_ASSERT(o.value.ss != NULL && o.value.ss->length == newlen, "the stored length is the new length");
      for (int i = 0; i < L; i++)
      {
        if ((size_t) i >= newlen) break;
        VF_ASSERT(o.value.ss->c_string[i] == newv[i], "the stored bytes are the new bytes");
      }
      VF_ASSERT(o.value.ss->c_string[newlen] == 0, "the stored value is NUL-terminated");
    }
  }
  else
    VF_ASSERT(o.value.ss == NULL, "after a failed set no stale value is left behind");
  VF_ASSERT(vf_live == (o.value.ss != NULL ? 1 : 0), "the previous value is released exactly once");

  static YR_OBJECT oi, of;

  oi.type = OBJECT_TYPE_INTEGER; of.type = OBJECT_TYPE_FLOAT;
  oi.value.i = (int64_t) vf_u64();
  int64_t v = (int64_t) vf_u64();
  VF_ASSERT(yr_object_set_integer(v, &oi, NULL) == ERROR_SUCCESS && oi.value.i == v, "integer setter stores the new value");
  union { uint64_t u; double d; } du;
  du.u = vf_u64();
  VF_ASSERT(yr_object_set_float(du.d, &of, NULL) == ERROR_SUCCESS && memcmp(&of.value.d, &du.d, sizeof(double)) == 0, "float setter stores the new value bit for bit");
  VF_WITNESS("end");
  return 0;
}
