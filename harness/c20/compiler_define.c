/* C20.H1c - compile-time definitions: the REAL yr_compiler_define_{integer,boolean,float}_variable (compiler.c:
 * _yr_compiler_define_variable, _yr_compiler_store_data) with the real arena, hash table and object code.
 * Sequence: define "a" (integer v1); then a second definition with symbolic identifier ("a" or "b"), type (integer, boolean, float, or a string without value) and value.
 * Asserted: a duplicate is rejected with ERROR_DUPLICATED_EXTERNAL_VARIABLE and changes NOTHING - the externals table
 * of the future rule set still has exactly one entry holding v1 (a stale second entry would shadow the first one in
 * every scanner and swallow rule-set level definitions); a new identifier adds exactly one entry.
 */
#define VF_OBJ 512
#include "common/arena_env.h"
#include <yara/compiler.h>
#include <yara/hash.h>
#include <yara/object.h>
#include <yara/libyara.h>
int yr_get_configuration_uint32(YR_CONFIG_NAME name, uint32_t* value) { *value = 16; return ERROR_SUCCESS; }
#include "hash.c"
#include "strutils.c"
#include "sizedstr.c"
#include "object.c"
#include "compiler.c"

int main(void)
{
  static YR_COMPILER c;
  int rc = yr_arena_create(YR_NUM_SECTIONS, 64, &c.arena);
  VF_ASSUME(rc == ERROR_SUCCESS);
  rc = yr_hash_table_create(4, &c.objects_table);
  VF_ASSUME(rc == ERROR_SUCCESS);
  rc = yr_hash_table_create(4, &c.sz_table);
  VF_ASSUME(rc == ERROR_SUCCESS);
  int64_t v1 = (int64_t) vf_u64(), v2 = (int64_t) vf_u64();
  rc = yr_compiler_define_integer_variable(&c, "a", v1);
  VF_ASSERT(rc == ERROR_SUCCESS, "the first definition succeeds");
  size_t used1 = c.arena->buffers[YR_EXTERNAL_VARIABLES_TABLE].used;
  VF_ASSERT(used1 == sizeof(YR_EXTERNAL_VARIABLE), "one entry per defined variable");
  char id[2] = {(char) ('a' + (vf_u8() & 1)), 0};
  int kind = (int) vf_range(0, 3);
  if (kind == 3)
  {
    /* a string variable without value is invalid whatever the identifier: rejected, nothing left behind */
    rc = yr_compiler_define_string_variable(&c, id, NULL);
    VF_ASSERT(rc == ERROR_INVALID_ARGUMENT, "a string external without value is rejected");
    VF_ASSERT(c.arena->buffers[YR_EXTERNAL_VARIABLES_TABLE].used == used1, "a rejected definition leaves no entry behind in the externals table");
  }
  else if (kind == 0) rc = yr_compiler_define_integer_variable(&c, id, v2);
  else if (kind == 1) rc = yr_compiler_define_boolean_variable(&c, id, (int) (v2 & 1));
  else rc = yr_compiler_define_float_variable(&c, id, 1.5);
  YR_EXTERNAL_VARIABLE* ext = (YR_EXTERNAL_VARIABLE*) c.arena->buffers[YR_EXTERNAL_VARIABLES_TABLE].data;
  size_t used2 = c.arena->buffers[YR_EXTERNAL_VARIABLES_TABLE].used;
  if (kind == 3)
    ;
  else if (id[0] == 'a')
  {
    VF_ASSERT(rc == ERROR_DUPLICATED_EXTERNAL_VARIABLE, "a duplicate definition is rejected with the documented error");
    VF_ASSERT(used2 == used1, "a rejected definition leaves no entry behind in the externals table");
  }
  else
  {
    VF_ASSERT(rc == ERROR_SUCCESS && used2 == 2 * sizeof(YR_EXTERNAL_VARIABLE), "a new identifier adds exactly one entry");
  }
  VF_ASSERT(ext[0].type == EXTERNAL_VARIABLE_TYPE_INTEGER && ext[0].value.i == v1 && ext[0].identifier[0] == 'a', "the first definition is untouched");
  VF_WITNESS("end");
  return 0;
}
