/* C16 - allocation failure anywhere inside a unit is reported, never suffered.
 * Allocator: common/mem_fail.h (each allocation may fail independently => all fault schedules in one query).
 * Asserted per unit: result in {SUCCESS, ERROR_INSUFFICIENT_MEMORY}; no NULL dereference / OOB (CBMC checks);
 * objects can still be destroyed; nothing leaks after the documented clean-up (vf_live == 0).
 *  -DVF_UNIT=1 arena.c   2 notebook.c   3 stack.c   4 hash.c   5 atoms.c (string)   6 object.c (scalar)   7 sizedstr.c
 *           8 rules.c   9 object.c (structure + copy)
 */
#if VF_UNIT == 1
#define VF_OBJ 64
#include "common/arena_env.h"   /* arena allocator: constant-size backing objects, failure injection via vf_alloc_fail_enabled */
#define vf_live (vf_allocs - vf_frees)
#else
#include "common/mem_fail.h"
#endif
#include <assert.h>
#include <yara/types.h>
#include <yara/error.h>
#include <yara/arena.h>
#include <yara/notebook.h>
#include <yara/stack.h>
#include <yara/hash.h>
#include <yara/atoms.h>
#include <yara/object.h>
#include <yara/sizedstr.h>

#if VF_UNIT == 1
/* arena.c comes with arena_env.h */
#elif VF_UNIT == 2
#include "notebook.c"
#elif VF_UNIT == 3
#include "stack.c"
#elif VF_UNIT == 4
#include "hash.c"
#elif VF_UNIT == 5
#include "atoms.c"
#elif VF_UNIT == 6
#include "strutils.c"
#include "hash.c"
#include "object.c"
#elif VF_UNIT == 9
#include "strutils.c"
#include "hash.c"
#include "object.c"
#elif VF_UNIT == 7
#include "sizedstr.c"
#elif VF_UNIT == 8
#include <yara/rules.h>
#include <yara/compiler.h>
#include "arena.c"
#include "rules.c"
#endif

#define OK_OR_NOMEM(r) VF_ASSERT((r) == ERROR_SUCCESS || (r) == ERROR_INSUFFICIENT_MEMORY, "result is success or ERROR_INSUFFICIENT_MEMORY")

int main(void)
{
#if VF_UNIT == 1
  YR_ARENA* a = NULL;
  vf_alloc_fail_enabled = 1;
  int r = yr_arena_create(2, 8, &a);
  OK_OR_NOMEM(r);
  if (r == ERROR_SUCCESS)
  {
    YR_ARENA_REF ref, ref2;
    r = yr_arena_allocate_struct(a, 0, 16, &ref, (size_t) 0, (size_t) 8, EOL);
    OK_OR_NOMEM(r);
    uint8_t data[12];
    vf_fill(data, 12);
    int r2 = yr_arena_write_data(a, 1, data, 12, &ref2); /* grows: 8 -> 16 */
    OK_OR_NOMEM(r2);
    int r3 = yr_arena_write_data(a, 1, data, 12, NULL); /* grows again, realloc of a live buffer may fail */
    OK_OR_NOMEM(r3);
    if (r2 == ERROR_SUCCESS)
    {
      uint8_t* p = yr_arena_ref_to_ptr(a, &ref2);
      VF_ASSERT(p != NULL && memcmp(p, data, 12) == 0, "data written before a failed growth is intact");
    }
    if (r == ERROR_SUCCESS)
    {
      int r4 = yr_arena_make_ptr_relocatable(a, 0, (yr_arena_off_t) ref.offset, EOL);
      OK_OR_NOMEM(r4);
    }
    yr_arena_release(a);
  }
  else
    VF_ASSERT(a == NULL || 1, "no arena on failure");
  VF_ASSERT(vf_live == 0, "nothing leaks after yr_arena_release");
#elif VF_UNIT == 2
  YR_NOTEBOOK* nb = NULL;
  int r = yr_notebook_create(16, &nb);
  OK_OR_NOMEM(r);
  if (r == ERROR_SUCCESS)
  {
    for (int i = 0; i < 3; i++)
    {
      uint8_t* p = yr_notebook_alloc(nb, 12); /* second and third allocation need a new page */
      if (p != NULL) memset(p, 0xAA, 12);
#ifndef VF_CONTINUE_AFTER_FAILURE /* what every caller in libyara does: give up and destroy the notebook later */
      else break;
#endif
    }
    yr_notebook_destroy(nb);
  }
  VF_ASSERT(vf_live == 0, "nothing leaks after yr_notebook_destroy");
#elif VF_UNIT == 3
  YR_STACK* st = NULL;
  int r = yr_stack_create(1, sizeof(uint32_t), &st);
  OK_OR_NOMEM(r);
  if (r == ERROR_SUCCESS)
  {
    uint32_t v[3], pushed = 0;
    for (int i = 0; i < 3; i++)
    {
      v[i] = vf_u32();
      int pr = yr_stack_push(st, &v[i]); /* capacity 1 -> 2 -> 4 */
      OK_OR_NOMEM(pr);
      if (pr != ERROR_SUCCESS) break;
      pushed++;
    }
    for (uint32_t i = pushed; i > 0; i--)
    {
      uint32_t out;
      VF_ASSERT(yr_stack_pop(st, &out) == 1 && out == v[i - 1], "items pushed before a failed growth are intact");
    }
    yr_stack_destroy(st);
  }
  VF_ASSERT(vf_live == 0, "nothing leaks after yr_stack_destroy");
#elif VF_UNIT == 4
  YR_HASH_TABLE* t = NULL;
  int r = yr_hash_table_create(1, &t); /* one bucket: both keys chain in it */
  OK_OR_NOMEM(r);
  if (r == ERROR_SUCCESS)
  {
    char k1[2] = {(char) ('a' + (vf_u8() & 1)), 0}, k2[2] = {(char) ('c' + (vf_u8() & 1)), 0};
    static int v1, v2;
    int r1 = yr_hash_table_add(t, k1, NULL, &v1);
    OK_OR_NOMEM(r1);
    int r2 = yr_hash_table_add(t, k2, "ns", &v2);
    OK_OR_NOMEM(r2);
    VF_ASSERT((yr_hash_table_lookup(t, k1, NULL) == &v1) == (r1 == ERROR_SUCCESS), "a key is found iff its insertion succeeded");
    VF_ASSERT((yr_hash_table_lookup(t, k2, "ns") == &v2) == (r2 == ERROR_SUCCESS), "a namespaced key is found iff its insertion succeeded");
    yr_hash_table_destroy(t, NULL);
  }
  VF_ASSERT(vf_live == 0, "nothing leaks after yr_hash_table_destroy");
#elif VF_UNIT == 5
  static uint8_t s[6];
  vf_fill(s, 6);
  YR_ATOMS_CONFIG cfg;
  memset(&cfg, 0, sizeof(cfg));
  cfg.get_atom_quality = yr_atoms_heuristic_quality;
  YR_MODIFIER mod;
  memset(&mod, 0, sizeof(mod));
  mod.flags = VF_FLAGS;
  mod.xor_min = 1;
  mod.xor_max = 2;
  YR_ATOM_LIST_ITEM* atoms = NULL;
  int minq = 0;
  int r = yr_atoms_extract_from_string(&cfg, s, 6, mod, &atoms, &minq);
  OK_OR_NOMEM(r);
  if (r == ERROR_SUCCESS) VF_ASSERT(atoms != NULL, "success yields atoms");
  if (r == ERROR_SUCCESS) yr_atoms_list_destroy(atoms);
  VF_ASSERT(vf_live == 0, "nothing leaks (on failure the extractor frees its partial lists itself)");
#elif VF_UNIT == 6
  YR_OBJECT* o = NULL;
  int r = yr_object_create(VF_OBJ_TYPE, "v", NULL, &o);
  OK_OR_NOMEM(r);
  if (r == ERROR_SUCCESS)
  {
#if VF_OBJ_TYPE == OBJECT_TYPE_STRING
    int r2 = yr_object_set_string("abc", 3, o, NULL);
    OK_OR_NOMEM(r2);
    int r3 = yr_object_set_string("de", 2, o, NULL); /* replaces: the old value must be released */
    OK_OR_NOMEM(r3);
#else
    int r2 = yr_object_set_integer(7, o, NULL);
    OK_OR_NOMEM(r2);
#endif
    yr_object_destroy(o);
  }
  VF_ASSERT(vf_live == 0, "nothing leaks after yr_object_destroy");
#elif VF_UNIT == 9
  /* a structure with an integer and a string member, copied (what OP_CALL does with a function's return object) and
     both destroyed: every allocation may fail */
  YR_OBJECT *st = NULL, *mi = NULL, *ms = NULL, *cp = NULL;
  int r = yr_object_create(OBJECT_TYPE_STRUCTURE, "s", NULL, &st);
  OK_OR_NOMEM(r);
  if (r == ERROR_SUCCESS)
  {
    int r1 = yr_object_create(OBJECT_TYPE_INTEGER, "i", st, &mi);
    OK_OR_NOMEM(r1);
    int r2 = yr_object_create(OBJECT_TYPE_STRING, "t", st, &ms);
    OK_OR_NOMEM(r2);
    if (r1 == ERROR_SUCCESS) { int r3 = yr_object_set_integer(7, st, "i"); VF_ASSERT(r3 == ERROR_SUCCESS, "setting an existing integer member allocates nothing"); }
    if (r2 == ERROR_SUCCESS) { int r4 = yr_object_set_string("xy", 2, st, "t"); OK_OR_NOMEM(r4); }
    int r5 = yr_object_copy(st, &cp);
    OK_OR_NOMEM(r5);
    if (r5 == ERROR_SUCCESS)
    {
      VF_ASSERT(cp != NULL && cp != st && cp->type == OBJECT_TYPE_STRUCTURE, "the copy is a distinct structure");
      if (r1 == ERROR_SUCCESS) VF_ASSERT(yr_object_get_integer(cp, "i") == 7, "the copy carries the integer member's value");
      yr_object_destroy(cp);
    }
    yr_object_destroy(st);
  }
  VF_ASSERT(vf_live == 0, "nothing leaks after destroying the structure and its copy");
#elif VF_UNIT == 7
  SIZED_STRING* a = ss_new("ab");
  if (a != NULL)
  {
    SIZED_STRING* b = ss_dup(a);
    if (b != NULL)
    {
      VF_ASSERT(b->length == a->length, "a duplicate has the same length");
      yr_free(b);
    }
    yr_free(a);
  }
  VF_ASSERT(vf_live == 0, "nothing leaks");
#elif VF_UNIT == 8
  /* yr_rules_from_arena + yr_rules_destroy on a minimal well-formed arena (no rules, no externals) */
  vf_fail_enabled = 0;
  YR_ARENA* a = NULL;
  int r = yr_arena_create(YR_NUM_SECTIONS, 64, &a);
  VF_ASSUME(r == ERROR_SUCCESS);
  YR_SUMMARY sum = {0, 0, 1};
  YR_RULE nullrule; memset(&nullrule, 0, sizeof(nullrule)); nullrule.flags = RULE_FLAGS_NULL;
  YR_EXTERNAL_VARIABLE nullext; memset(&nullext, 0, sizeof(nullext)); nullext.type = EXTERNAL_VARIABLE_TYPE_NULL;
  YR_NAMESPACE ns; memset(&ns, 0, sizeof(ns));
  VF_ASSUME(yr_arena_write_data(a, YR_SUMMARY_SECTION, &sum, sizeof(sum), NULL) == ERROR_SUCCESS);
  VF_ASSUME(yr_arena_write_data(a, YR_RULES_TABLE, &nullrule, sizeof(nullrule), NULL) == ERROR_SUCCESS);
  VF_ASSUME(yr_arena_write_data(a, YR_EXTERNAL_VARIABLES_TABLE, &nullext, sizeof(nullext), NULL) == ERROR_SUCCESS);
  VF_ASSUME(yr_arena_write_data(a, YR_NAMESPACES_TABLE, &ns, sizeof(ns), NULL) == ERROR_SUCCESS);
  vf_fail_enabled = 1;
  YR_RULES* rules = NULL;
  r = yr_rules_from_arena(a, &rules);
  OK_OR_NOMEM(r);
  vf_fail_enabled = 0;
  if (r == ERROR_SUCCESS)
  {
    VF_ASSERT(rules != NULL && rules->num_rules == 0, "success yields the rule set");
    int dr = yr_rules_destroy(rules);
    VF_ASSERT(dr == ERROR_SUCCESS, "the rule set can be destroyed");
  }
  yr_arena_release(a); /* our own reference */
  VF_ASSERT(vf_live == 0, "nothing leaks whether or not yr_rules_from_arena succeeded");
#endif
  VF_WITNESS("end");
  return 0;
}
