/* C16 - _yr_ac_find_suitable_transition_table_slot (ahocorasick.c) under allocation failure: the two arena growths and
 * the bitmask reallocation may each fail independently.  Asserted: result in {SUCCESS, INSUFFICIENT_MEMORY}; the
 * automaton still owns a bitmask afterwards (it is what yr_ac_automaton_destroy frees); nothing is lost: after the
 * documented clean-up (free the bitmask, release the arena) no block is live.
 */
#define VF_OBJ 4096
#include "common/arena_env.h"
#include <yara/ahocorasick.h>
#include <yara/compiler.h>
#include <yara/bitmask.h>
static uint32_t stub_slot;
uint32_t yr_bitmask_find_non_colliding_offset(YR_BITMASK* a, YR_BITMASK* b, uint32_t len_a, uint32_t len_b, uint32_t* off_a) { return stub_slot; }
#include "ahocorasick.c"

int main(void)
{
  YR_ARENA* a = NULL;
  int rc = yr_arena_create(YR_NUM_SECTIONS, 64, &a);
  VF_ASSUME(rc == ERROR_SUCCESS);
  static YR_AC_AUTOMATON au;
  static YR_AC_STATE st;
  uint32_t tables = 300;
  au.tables_size = tables;
  au.bitmask = yr_malloc(VF_OBJ);
  VF_ASSUME(au.bitmask != NULL);
  rc = yr_arena_allocate_zeroed_memory(a, YR_AC_TRANSITION_TABLE, tables * sizeof(YR_AC_TRANSITION), NULL);
  VF_ASSUME(rc == ERROR_SUCCESS);
  int before = vf_allocs - vf_frees;
  stub_slot = vf_range(0, 300);
  vf_alloc_fail_enabled = 1;
  uint32_t slot = 0;
  rc = _yr_ac_find_suitable_transition_table_slot(&au, a, &st, &slot);
  vf_alloc_fail_enabled = 0;
  VF_ASSERT(rc == ERROR_SUCCESS || rc == ERROR_INSUFFICIENT_MEMORY, "result is success or ERROR_INSUFFICIENT_MEMORY");
  VF_ASSERT(au.bitmask != NULL, "the automaton keeps a bitmask it can free, also after a failed enlargement");
  yr_free(au.bitmask);
  yr_arena_release(a);
  VF_ASSERT(vf_allocs - vf_frees == 0, "nothing leaks after the documented clean-up");
  (void) before;
  VF_WITNESS("end");
  return 0;
}
