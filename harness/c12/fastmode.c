/* C12.H4 - fast-scan mode never changes a verdict: the same symbolic data scanned by the REAL whole scan with and
 * without SCAN_FLAGS_FAST_MODE on the image of one rule (the compiler decided which of its strings may keep
 * STRING_FLAGS_SINGLE_MATCH / FIXED_OFFSET; scan.c's early-outs rely on those flags).
 * Asserted: the rule's verdict message is the same in both modes (match lists may legitimately be shorter in fast mode).
 */
#define VF_NBLOCKS_C 1
#include "common/whole_scan.h"
#include "img_img.h"
#ifndef VF_N
#define VF_N 5
#endif
static int verdict[2], msgs[2], cur;
static int vf_cb(YR_SCAN_CONTEXT* c, int msg, void* data, void* ud)
{
  if (msg == CALLBACK_MSG_RULE_MATCHING) { verdict[cur] = 1; msgs[cur]++; }
  if (msg == CALLBACK_MSG_RULE_NOT_MATCHING) { verdict[cur] = 0; msgs[cur]++; }
  return CALLBACK_CONTINUE;
}
int main(void)
{
  static uint8_t buf[VF_N];
  vf_init_tables();
  IMG_init();
  IMG_no_required[0] |= 1;
  size_t n = vf_range(0, VF_N);
  vf_fill(buf, VF_N);
  static vf_scanner A, B;
  YR_MEMORY_BLOCK_ITERATOR itA, itB;
  static vf_iter_ctx cA, cB;
  int rep = SCAN_FLAGS_REPORT_RULES_MATCHING | SCAN_FLAGS_REPORT_RULES_NOT_MATCHING;
  vf_scanner_init(&A, &IMG_rules_obj, vf_cb, rep);
  vf_scanner_init(&B, &IMG_rules_obj, vf_cb, rep | SCAN_FLAGS_FAST_MODE);
  vf_iter_setup(&itA, &cA, buf, n, 1, 0, 0);
  vf_iter_setup(&itB, &cB, buf, n, 1, 0, 0);
  cur = 0;
  int rA = yr_scanner_scan_mem_blocks(&A.sc, &itA);
  cur = 1;
  int rB = yr_scanner_scan_mem_blocks(&B.sc, &itB);
  VF_ASSERT(rA == ERROR_SUCCESS && rB == ERROR_SUCCESS, "both scans succeed");
  VF_ASSERT(msgs[0] == 1 && msgs[1] == 1, "the rule is reported once in each mode");
  VF_ASSERT(verdict[0] == verdict[1], "fast-scan mode does not change the rule's verdict");
  VF_WITNESS("end");
  return 0;
}
