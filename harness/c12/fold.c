/* C12.H1 / C07.H1 - compile-time constant folding (the bison action, extracted mechanically from the generated
 * parser: actions.h) versus the run-time value computed by the REAL VM (exec.c) for the same operands.
 *   -DVF_ACT=ACT_xxx  -DVF_OP=OP_xxx  -DVF_ARITY=1|2   -DVF_REJECT=<error code the action may raise for operands, 0 if none>
 * Symbolic: both operands over all 2^64 values (YR_UNDEFINED = "not a compile-time constant"), the result of the
 * code-emitting reducer (any error code).
 * Asserted: no undefined behaviour inside the action (CBMC's overflow / division / shift checks: a trap here is a
 * compiler crash, C07); accept => folded value == VM value (both undefined or equal); the documented reject
 * conditions are exact (overflow / division by zero / negative shift), so accept and reject sets are right.
 */
#define VF_CODE_MAX 64
#include "common/exec_env.h"
#include "spec/ops.h"
#include <yara/compiler.h>
#include <yara/parser.h>

/* ---- environment of the extracted action ---- */
static int vf_reducer_result;
int yr_parser_reduce_operation(yyscan_t yyscanner, const char* operation, YR_EXPRESSION l, YR_EXPRESSION r) { return vf_reducer_result; }
int yr_parser_emit(yyscan_t yyscanner, uint8_t instruction, YR_ARENA_REF* ref) { return vf_reducer_result; }
static int vf_yyerror_calls;
void yara_yyerror(yyscan_t yyscanner, YR_COMPILER* compiler, const char* msg) { vf_yyerror_calls++; }
#define yyerror yara_yyerror
#include "actions_head.h"
/* message formatting is not the subject: the extra-info macros get trivial bodies */
#undef yr_compiler_set_error_extra_info_fmt
#define yr_compiler_set_error_extra_info_fmt(compiler, fmt, ...) ((compiler)->last_error_extra_info[0] = '!');
#undef yr_compiler_set_error_extra_info
#define yr_compiler_set_error_extra_info(compiler, info) ((compiler)->last_error_extra_info[0] = '!');
#include "actions.h"

/* ---- the VM side (same program layout as C04.H1) ---- */
static YR_RULE rules_table[1];
static YR_NAMESPACE ns0;
static YR_RULES rules;
static YR_SCAN_CONTEXT ctx;
static YR_BITMASK rule_matches[1], ns_unsat[1], required_eval[1];
static YR_ARENA rules_arena;
static int vm(uint64_t a, uint64_t b, int observer, uint64_t e)
{
  vf_cp = 0;
  emit_rule_begin(0);
  emit_push(a);
#if VF_ARITY == 2
  emit_push(b);
#endif
  emit8(VF_OP);
  if (observer == 1) { emit_push(e); emit8(OP_INT_EQ); }
  else emit8(OP_DEFINED);
  emit_rule_end(0);
  emit8(OP_HALT);
  memset(&ctx, 0, sizeof(ctx));
  memset(&rules, 0, sizeof(rules));
  memset(rules_table, 0, sizeof(rules_table));
  rule_matches[0] = ns_unsat[0] = 0;
  required_eval[0] = 1;
  rules_table[0].ns = &ns0;
  rules.rules_table = rules_table;
  rules.num_rules = 1;
  rules.code_start = vf_code;
  memset(&rules_arena, 0, sizeof(rules_arena));
  rules_arena.num_buffers = 1;
  rules_arena.buffers[0].data = (uint8_t*) rules_table;
  rules_arena.buffers[0].size = rules_arena.buffers[0].used = sizeof(rules_table);
  rules.arena = &rules_arena;
  ctx.rules = &rules;
  ctx.rule_matches_flags = rule_matches;
  ctx.ns_unsatisfied_flags = ns_unsat;
  ctx.required_eval = required_eval;
  int r = yr_execute_code(&ctx);
  VF_ASSERT(r == ERROR_SUCCESS, "VM run succeeds");
  return (int) (rule_matches[0] & 1);
}

static YR_COMPILER comp;

int main(void)
{
  uint64_t a = vf_u64(), b = vf_u64();
  vf_reducer_result = vf_bool() ? ERROR_SUCCESS : (int) vf_range(1, 70);
  YYSTYPE vs[3], val;
  memset(vs, 0, sizeof(vs));
  memset(&comp, 0, sizeof(comp));
#if VF_ARITY == 2
  vs[0].expression.type = EXPRESSION_TYPE_INTEGER;
  vs[0].expression.value.integer = (int64_t) a;
  vs[2].expression.type = EXPRESSION_TYPE_INTEGER;
  vs[2].expression.value.integer = (int64_t) b;
  val = vs[0]; /* bison's default $$ = $1 */
#else
  vs[2].expression.type = EXPRESSION_TYPE_INTEGER;
  vs[2].expression.value.integer = (int64_t) a;
  val = vs[1];
  b = 0;
#endif
#ifdef VF_SMALL_OPERAND
  /* stated bound for the exactness of the multiplication overflow check (the full 2^128 space does not
     finish on any back end): one operand is arbitrary, the other has magnitude <= VF_SMALL_OPERAND or is
     INT64_MIN / INT64_MAX */
  {
    int64_t sb0 = (int64_t) b, sa0 = (int64_t) a;
#if VF_SMALL_SIDE == 0
    VF_ASSUME((sb0 >= -VF_SMALL_OPERAND && sb0 <= VF_SMALL_OPERAND) || sb0 == INT64_MIN || sb0 == INT64_MAX);
#else
    VF_ASSUME((sa0 >= -VF_SMALL_OPERAND && sa0 <= VF_SMALL_OPERAND) || sa0 == INT64_MIN || sa0 == INT64_MAX);
#endif
  }
#endif
  int rc = VF_ACT(vs + 2, &val, NULL, &comp);
  int a_const = a != SPEC_UNDEF, b_const = (VF_ARITY == 1) || b != SPEC_UNDEF;

  if (vf_reducer_result != ERROR_SUCCESS && vf_reducer_result != ERROR_UNKNOWN_ESCAPE_SEQUENCE && VF_REJECT == 0)
    VF_ASSERT(rc != 0, "an error from the code-emitting reducer fails the production");
  if (rc != 0)
  {
    VF_ASSERT(vf_yyerror_calls == 1 && comp.last_error != ERROR_SUCCESS, "a failing production reports exactly one error with a code");
    VF_ASSERT((rc == 3) == (comp.last_error == ERROR_INSUFFICIENT_MEMORY), "only out-of-memory aborts the parse, everything else is a recoverable error");
  }
  if (a_const && b_const)
  {
    spec_val s =
#if VF_ARITY == 2
        spec_int_bin(VF_OP, a, b);
#else
        spec_int_un(VF_OP, a);
#endif
    /* documented reject reasons, exact */
    int must_reject = 0;
    int64_t sa = (int64_t) a, sb = (int64_t) b;
#if VF_REJECT == ERROR_INTEGER_OVERFLOW
    {
      __int128 wide = VF_OP == OP_INT_ADD ? (__int128) sa + sb : VF_OP == OP_INT_SUB ? (__int128) sa - sb : (__int128) sa * sb;
      /* + and -: the result must be representable.  *: the product's MAGNITUDE must not exceed INT64_MAX - the
         repository's own suite (tests/test-rules.c: 4611686018427387904 * -2 is an overflow) fixes that reading */
      must_reject = wide > INT64_MAX || wide < (VF_OP == OP_INT_MUL ? -(__int128) INT64_MAX : (__int128) INT64_MIN);
    }
#elif VF_REJECT == ERROR_DIVISION_BY_ZERO
    must_reject = sb == 0;
#elif VF_REJECT == ERROR_INVALID_OPERAND
    must_reject = sb < 0;
#endif
#ifndef VF_NO_REJECT_EXACTNESS
    if (vf_reducer_result == ERROR_SUCCESS)
    {
      VF_ASSERT((rc != 0) == must_reject, "constant operands are rejected exactly when the documented reason holds (overflow / division by zero / negative shift)");
      if (rc != 0) VF_ASSERT(comp.last_error == VF_REJECT, "the reported reason is the documented one");
    }
#endif
    if (rc == 0 && val.expression.type == EXPRESSION_TYPE_INTEGER)
    {
      uint64_t folded = (uint64_t) val.expression.value.integer;
      /* run-time value from the real VM */
      uint64_t e = vf_u64();
      int hit = vm(a, b, 1, e);
      int defd = vm(a, b, 2, 0);
      if (!defd)
        VF_ASSERT(folded == SPEC_UNDEF, "operands for which the scanner computes undefined are not folded to a value");
      else if (hit && e != SPEC_UNDEF)
        VF_ASSERT(folded == e, "the folded constant equals the value the scanner computes at run time");
      /* and both agree with the manual's semantics */
      VF_ASSERT(s.undef ? folded == SPEC_UNDEF : (folded == s.v || s.v == SPEC_UNDEF), "the folded constant equals the documented value");
    }
  }
  else if (rc == 0 && val.expression.type == EXPRESSION_TYPE_INTEGER)
  {
    uint64_t folded = (uint64_t) val.expression.value.integer;
#if VF_ARITY == 2
    /* a non-constant operand: the only value that may be claimed is one that holds for EVERY defined value of
       the unknown operand (x << 64 == 0); anything else must stay "not constant" */
    VF_ASSERT(folded == SPEC_UNDEF || ((VF_OP == OP_SHL || VF_OP == OP_SHR) && b_const && (int64_t) b >= 64 && folded == 0),
              "an expression with a non-constant operand is not folded to a constant");
#else
    VF_ASSERT(folded == SPEC_UNDEF, "an expression with a non-constant operand is not folded to a constant");
#endif
  }
  VF_WITNESS("end");
  return 0;
}
