/* C12.H5 - "forcing a condition to be evaluated unconditionally never changes a verdict": a rule is only SKIPPED when
 * none of its strings matched if the grammar counted `required_strings` > 0 for its condition.  For the three
 * `<quantifier> of <string set> [in range | at offset]` productions (actions extracted mechanically from the generated
 * parser) the count may be positive only if the expression CANNOT be true with zero matching strings:
 *   a constant integer quantifier > 0, or the keywords all / any.   A quantifier that is not a compile-time constant
 * (external variable, #a, filesize: value YR_UNDEFINED here) may be 0 at run time, and `0 of (...)` / `none of (...)`
 * IS true without any match - so the count must then be 0.
 * Symbolic: quantifier kind and value (all 64-bit values), size of the string set, result of the emitters.
 */
#include "vf.h"
#include <assert.h>
#include <string.h>
#include <stdlib.h>
#include <yara/types.h>
#include <yara/compiler.h>
#include <yara/parser.h>
#include <yara/exec.h>
#include <yara/error.h>
int yr_parser_emit(yyscan_t yyscanner, uint8_t instruction, YR_ARENA_REF* ref) { return ERROR_SUCCESS; }
int yr_parser_emit_with_arg(yyscan_t s, uint8_t instruction, int64_t argument, YR_ARENA_REF* iref, YR_ARENA_REF* aref) { return ERROR_SUCCESS; }
static int vf_yyerror_calls;
void yara_yyerror(yyscan_t yyscanner, YR_COMPILER* compiler, const char* msg) { vf_yyerror_calls++; }
void yara_yywarning(yyscan_t yyscanner, const char* fmt, ...) {}
#define yyerror yara_yyerror
#define yywarning yara_yywarning
#include "actions_head.h"
#undef yr_compiler_set_error_extra_info_fmt
#define yr_compiler_set_error_extra_info_fmt(compiler, fmt, ...) ((compiler)->last_error_extra_info[0] = '!');
#undef yr_compiler_set_error_extra_info
#define yr_compiler_set_error_extra_info(compiler, info) ((compiler)->last_error_extra_info[0] = '!');
#include "actions.h"
static YR_COMPILER comp;
int main(void)
{
  YYSTYPE vs[5], val;
  memset(vs, 0, sizeof(vs));
  int is_quant = vf_bool();
  uint64_t q = vf_u64();
  /* $1 = for_expression sits VF_NSYM-1 slots below the top of the bison stack */
  YYSTYPE* top = vs + (VF_NSYM - 1);
  top[-(VF_NSYM - 1)].expression.type = is_quant ? EXPRESSION_TYPE_QUANTIFIER : EXPRESSION_TYPE_INTEGER;
  top[-(VF_NSYM - 1)].expression.value.integer = (int64_t) q;
  top[-(VF_NSYM - 3)].integer = (int64_t) vf_range(1, 4); /* $3: number of strings in the set */
#if VF_NSYM == 5
  top[0].expression.type = EXPRESSION_TYPE_INTEGER; /* $5 for the `at` form (ignored by the `in` form: range emits its own code) */
  top[0].expression.value.integer = (int64_t) vf_u64();
#endif
  val = vs[0];
  int rc = VF_ACT(top, &val, NULL, &comp);
  VF_ASSERT(rc == 0, "the production is accepted");
  int cannot_be_true_without_matches =
      (!is_quant && q != 0xFFFABADAFABADAFFULL && (int64_t) q > 0) || (is_quant && (q == 1 /* all */ || q == 2 /* any */));
  VF_ASSERT(val.expression.required_strings.count == 0 || cannot_be_true_without_matches,
            "a rule may only be skipped for lack of string matches if its condition cannot be true without them");
  VF_ASSERT(val.expression.type == EXPRESSION_TYPE_BOOLEAN, "`of` yields a boolean");
  VF_WITNESS("end");
  return 0;
}
