#!/bin/sh
# usage: mk_worktree.sh <dir>   - scratch git worktree of /repo HEAD, configured and built (for seeded-change work)
set -e
d="$1"
git -C /repo worktree add --detach "$d" HEAD >/dev/null 2>&1
cd "$d"
./bootstrap.sh >/dev/null 2>&1
./configure >/dev/null 2>&1
# keep the generated parsers newer than their sources so that make does not regenerate them
touch libyara/grammar.c libyara/hex_grammar.c libyara/re_grammar.c libyara/lexer.c libyara/hex_lexer.c libyara/re_lexer.c
make -j4 >/dev/null 2>&1
echo "worktree $d ready"
