"""Common machinery for the /verif solver-based checks (stdlib only).

Pipeline per harness (see DESIGN.md section 2):
  goto-cc (real /repo sources textually included)  ->  cbmc --json-ui
  -> classification (hold / violation / vacuous / bound / inconclusive)
  -> on violation: cbmc --trace, extraction of the solver's input values,
     native replay of the same harness (gcc + ASan/UBSan, -DVF_REPLAY).
"""
import atexit, ctypes, json, os, re, resource, shlex, shutil, signal, subprocess, sys, time, hashlib
from concurrent.futures import ThreadPoolExecutor
from dataclasses import dataclass, field

VERIF = os.path.dirname(os.path.dirname(os.path.abspath(__file__)))
REPO = os.environ.get("VERIF_REPO", "/repo")
HARNESS = os.path.join(VERIF, "harness")
EVIDENCE = os.environ.get("VERIF_EVIDENCE_DIR") or os.path.join(VERIF, "evidence")   # seed checks write elsewhere
GUARD = "YARA_VERIF"

STD_FLAGS = [
    "--unwinding-assertions",
    "--pointer-overflow-check",
    "--drop-unused-functions",
    "--slice-formula",
]


# --------------------------------------------------------------------------
# scratch
# --------------------------------------------------------------------------
class Scratch:
    def __init__(self, tag):
        base = os.environ.get("VERIF_SCRATCH_BASE", "/var/tmp")
        self.dir = os.path.join(base, "yara-verif.%s.%d" % (tag, os.getpid()))
        shutil.rmtree(self.dir, ignore_errors=True)
        os.makedirs(self.dir)
        self.keep = bool(os.environ.get("VERIF_KEEP"))

    def sub(self, name):
        d = os.path.join(self.dir, name)
        os.makedirs(d, exist_ok=True)
        return d

    def cleanup(self):
        if not self.keep:
            shutil.rmtree(self.dir, ignore_errors=True)


# --------------------------------------------------------------------------
# flags from the repository's own build
# --------------------------------------------------------------------------
def repo_defines():
    """-D flags the repo is really built with (from /repo/Makefile), minus
    the PACKAGE_* strings.  Falls back to the configure defaults recorded in
    DESIGN.md if the tree is not configured."""
    defs = []
    mk = os.path.join(REPO, "Makefile")
    txt = ""
    if os.path.exists(mk):
        txt = open(mk, errors="replace").read()
    for var in ("CFLAGS", "DEFS"):
        m = re.search(r"^%s = (.*)$" % var, txt, re.M)
        if not m:
            continue
        try:
            toks = shlex.split(m.group(1))
        except ValueError:
            toks = m.group(1).split()
        for t in toks:
            if t.startswith("-D") and not t.startswith("-DPACKAGE") and not t.startswith("-DVERSION") and "LT_OBJDIR" not in t:
                if t not in defs:
                    defs.append(t)
    if not defs:
        defs = ["-DUSE_LINUX_PROC", "-DDOTNET_MODULE", "-DHASH_MODULE", "-DBUCKETS_128=1",
                "-DCHECKSUM_1B=1", "-DHAVE_STDBOOL_H=1", "-DHAVE_MEMMEM=1", "-DHAVE_TIMEGM=1",
                "-DHAVE_CLOCK_GETTIME=1", "-DHAVE_LIBCRYPTO=1", "-DHAVE_SCAN_PROC_IMPL=1"]
    defs += ["-D_GNU_SOURCE", "-D" + GUARD + "=1"]
    return defs


def repo_includes():
    return ["-I" + os.path.join(REPO, "libyara", "include"), "-I" + os.path.join(REPO, "libyara"),
            "-I" + REPO, "-I" + HARNESS]


def native_sources():
    """libyara translation units of the configured build."""
    ly = os.path.join(REPO, "libyara")
    srcs = sorted(os.path.join(ly, f) for f in os.listdir(ly) if f.endswith(".c"))
    defs = " ".join(repo_defines())
    mods = ["tests/tests.c", "elf/elf.c", "math/math.c", "time/time.c", "pe/pe.c", "pe/pe_utils.c",
            "console/console.c", "string/string.c"]
    if "HASH_MODULE" in defs:
        mods.append("hash/hash.c")
    if "DOTNET_MODULE" in defs:
        mods.append("dotnet/dotnet.c")
    if "MACHO_MODULE" in defs:
        mods.append("macho/macho.c")
    if "DEX_MODULE" in defs:
        mods.append("dex/dex.c")
    if "HAVE_LIBCRYPTO" in defs:
        ap = os.path.join(ly, "modules/pe/authenticode-parser")
        if os.path.isdir(ap):
            mods += ["pe/authenticode-parser/" + f for f in sorted(os.listdir(ap)) if f.endswith(".c")]
    srcs += [os.path.join(ly, "modules", m) for m in mods]
    srcs.append(os.path.join(ly, "proc/linux.c"))
    tl = os.path.join(ly, "tlshc")
    if os.path.isdir(tl):
        srcs += [os.path.join(tl, f) for f in sorted(os.listdir(tl)) if f.endswith(".c")]
    return [s for s in srcs if os.path.exists(s)]


_LIVE = set()


def _reap(signum=None, frame=None):
    for pid in list(_LIVE):
        try:
            os.killpg(pid, signal.SIGKILL)
        except Exception:
            pass
    if signum is not None:
        os._exit(128 + signum)


atexit.register(_reap)
for _s in (signal.SIGTERM, signal.SIGINT, signal.SIGHUP):
    try:
        signal.signal(_s, _reap)
    except Exception:
        pass


def sh(cmd, cwd=None, timeout=None, env=None, mem_gb=None, stdin=None):
    """run, return (rc, stdout, stderr, wall, maxrss_kb); rc=-9 on timeout"""
    def pre():
        os.setsid()
        try:  # die with the driver (PR_SET_PDEATHSIG): a killed driver must not leave solvers behind
            ctypes.CDLL(None).prctl(1, signal.SIGKILL)
        except Exception:
            pass
        if mem_gb:
            lim = int(mem_gb * (1 << 30))
            resource.setrlimit(resource.RLIMIT_AS, (lim, lim))
    t0 = time.time()
    p = subprocess.Popen(cmd, cwd=cwd, env=env, stdout=subprocess.PIPE, stderr=subprocess.PIPE,
                         stdin=subprocess.PIPE if stdin is not None else subprocess.DEVNULL,
                         preexec_fn=pre)
    _LIVE.add(p.pid)
    try:
        out, err = p.communicate(input=stdin, timeout=timeout)
        rc = p.returncode
        try:  # back ends started by cbmc (z3, kissat) live in the same group
            os.killpg(p.pid, signal.SIGKILL)
        except (ProcessLookupError, PermissionError):
            pass
    except subprocess.TimeoutExpired:
        try:
            os.killpg(p.pid, signal.SIGKILL)
        except ProcessLookupError:
            pass
        out, err = p.communicate()
        rc = -9
    _LIVE.discard(p.pid)
    ru = resource.getrusage(resource.RUSAGE_CHILDREN)
    return rc, out.decode(errors="replace"), err.decode(errors="replace"), time.time() - t0, ru.ru_maxrss


def build_native_lib(scratch, extra_defs=(), name="native", opt="-O1", sanitize=False):
    """Compile libyara from the working tree into scratch (never touches /repo).
    Returns path of the static archive."""
    d = scratch.sub(name)
    lib = os.path.join(d, "libyara_vf.a")
    if os.path.exists(lib):
        return lib
    srcs = native_sources()
    flags = [opt, "-g", "-w", "-std=gnu99"] + repo_defines() + list(extra_defs) + repo_includes() + \
            ["-I" + os.path.join(REPO, "libyara/modules")]
    if sanitize:
        flags += ["-fsanitize=address,undefined", "-fno-sanitize=signed-integer-overflow", "-fno-omit-frame-pointer"]
    objs = []
    jobs = []
    for s in srcs:
        o = os.path.join(d, hashlib.md5(s.encode()).hexdigest()[:8] + "_" + os.path.basename(s)[:-2] + ".o")
        objs.append(o)
        jobs.append(["gcc"] + flags + ["-c", s, "-o", o])
    with ThreadPoolExecutor(16) as ex:
        res = list(ex.map(lambda c: sh(c, timeout=600), jobs))
    for c, r in zip(jobs, res):
        if r[0] != 0:
            raise RuntimeError("native build failed: %s\n%s" % (" ".join(c), r[2][-3000:]))
    rc, o, e, _, _ = sh(["ar", "rcs", lib] + objs)
    if rc != 0:
        raise RuntimeError("ar failed: " + e)
    return lib


NATIVE_LIBS = ["-lcrypto", "-lm", "-lpthread"]


# --------------------------------------------------------------------------
# harness description
# --------------------------------------------------------------------------
@dataclass
class Harness:
    name: str                       # unique inside the property
    src: str                        # path relative to /verif/harness (or absolute: generated)
    defines: list = field(default_factory=list)     # -D... for goto-cc and replay
    includes: list = field(default_factory=list)    # extra -I
    flags: list = field(default_factory=list)       # extra cbmc flags (--unwind, --unwindset, ...)
    unwind: int = 2
    timeout: int = 300
    mem_gb: float = 12
    malloc_may_fail: bool = False
    solver: str = "cadical"         # cadical | minisat | kissat | cvc5 | z3
    desc: str = ""                  # human description, goes to evidence samples
    bounds: str = ""
    functions: list = field(default_factory=list)   # real functions exercised (informational)
    stubs: list = field(default_factory=list)
    known: list = field(default_factory=list)       # substrings of assertion descriptions that are listed known findings
    expect_fail: list = field(default_factory=list)  # known-finding harness: these assertion substrings MUST fail (finding still present)
    gen: object = None              # callable(ctx, outdir) producing generated headers
    weight: int = 1                 # scheduling hint (bigger first)
    no_checks: list = field(default_factory=list)   # e.g. ["signed-overflow"] -> --no-signed-overflow-check
    replay_libs: list = field(default_factory=list)
    extra_srcs: list = field(default_factory=list)  # additional TUs (repo-relative or absolute) linked in
    allow_nobody: list = field(default_factory=list)  # functions deliberately left without body (nondet result)
    leak_check: bool = False        # replay with LeakSanitizer (harnesses whose subject is leaks)
    unwind_funcs: dict = field(default_factory=dict)  # {function name: bound} applied to every loop of that function (derived via --show-loops)


@dataclass
class HResult:
    h: Harness
    status: str = "?"         # hold | violation | vacuous | bound | inconclusive | error | known
    props_total: int = 0
    props_ok: int = 0
    user_asserts_ok: int = 0
    failed: list = field(default_factory=list)   # list of dict(property, description, file, line, function, cls)
    witness_ok: bool = False
    wall: float = 0.0
    solver_s: float = 0.0
    rss_mb: float = 0.0
    note: str = ""
    cmd: str = ""
    nfuncs: int = 0
    funcs: list = field(default_factory=list)
    program_size: int = 0
    vccs: int = 0
    bound_failed: bool = False
    unknown_n: int = 0
    unknown_vf: int = 0


class Ctx:
    def __init__(self, pid, tier, seed):
        self.pid = pid
        self.tier = tier
        self.seed = seed
        self.scratch = Scratch(pid)
        self.jobs = int(os.environ.get("VERIF_JOBS", "0")) or (os.cpu_count() or 8)
        self._native = {}

    def native_lib(self, extra_defs=(), name="native", sanitize=False):
        key = (tuple(extra_defs), name, sanitize)
        if key not in self._native:
            self._native[key] = build_native_lib(self.scratch, extra_defs, name, sanitize=sanitize)
        return self._native[key]


def _src_path(h):
    return h.src if os.path.isabs(h.src) else os.path.join(HARNESS, h.src)


def compile_goto(ctx, h, outdir):
    gb = os.path.join(outdir, h.name + ".gb")
    srcs = [_src_path(h)] + [s if os.path.isabs(s) else os.path.join(REPO, s) for s in h.extra_srcs]
    cmd = ["goto-cc", "-o", gb] + srcs + repo_defines() + h.defines + [i.replace("@OUTDIR@", outdir) for i in h.includes] + repo_includes() + \
          ["-I" + outdir]
    rc, out, err, wall, _ = sh(cmd, timeout=300)
    if rc != 0:
        return None, "goto-cc failed: " + (err or out)[-2000:]
    return gb, ""


def solver_flags(solver):
    if solver == "cadical":
        return ["--sat-solver", "cadical"]
    if solver == "minisat":
        return []
    if solver == "kissat":
        return ["--external-sat-solver", "kissat"]
    if solver == "cvc5":
        return ["--cvc5"]
    if solver == "z3":
        return ["--z3"]
    return []


PASS2_OFF = ["undefined-shift", "signed-overflow"]   # plus: --pointer-overflow-check is not passed


def cbmc_cmd(h, gb, extra=(), pass2=False):
    """pass2: the UB-class checks whose failure makes CBMC 6 leave every later obligation UNKNOWN (it asserts-then-assumes
    them: paths through the UB are cut) are switched off, so that all remaining obligations are decided on ALL paths with the
    machine semantics (two's complement, flat offsets)."""
    std = [f for f in STD_FLAGS if not (pass2 and f == "--pointer-overflow-check")]
    cmd = ["cbmc", gb, "--json-ui", "--unwind", str(h.unwind)] + std + solver_flags(h.solver)
    cmd += ["--malloc-may-fail", "--malloc-fail-null"] if h.malloc_may_fail else ["--no-malloc-may-fail"]
    for c in list(h.no_checks) + ([c for c in PASS2_OFF if c not in h.no_checks] if pass2 else []):
        cmd.append("--no-%s-check" % c)
    cmd += h.flags + list(extra)
    return cmd


def parse_cbmc_json(out):
    """returns (results list, status str, messages)"""
    try:
        data = json.loads(out)
    except Exception:
        # truncated output (timeout/oom): try to salvage
        return None, "unparsable", []
    results, status, msgs = None, None, []
    for e in data:
        if "result" in e:
            results = e["result"]
        elif "cProverStatus" in e:
            status = e["cProverStatus"]
        elif "messageText" in e:
            msgs.append(e["messageText"])
    return results, status, msgs


def prop_class(r):
    sl = r.get("sourceLocation", {}) or {}
    return sl.get("propertyClass") or r["property"].split(".")[-2] if "." in r["property"] else ""


def run_harness(ctx, h):
    """pass 1 with every check; if the only effect of failing UB-class checks is that later obligations stay UNKNOWN, a second
    pass without those checks decides them (see cbmc_cmd)."""
    r1 = _run_harness(ctx, h, pass2=False)
    if r1.status != "violation" or not getattr(r1, "unknown_n", 0):
        return r1
    if any(it["description"].startswith("VF:") for it in r1.failed):
        return r1            # a functional assertion failed: goes to replay as it is
    r2 = _run_harness(ctx, h, pass2=True)
    r2.wall += r1.wall
    r2.solver_s += r1.solver_s
    r2.rss_mb = max(r1.rss_mb, r2.rss_mb)
    r2.props_total += r1.props_total
    if r2.status in ("inconclusive", "error", "vacuous", "bound"):
        r2.note = "second pass (UB-class checks off): " + r2.note
        return r2
    p2 = set(it["property"] for it in r2.failed)
    h._pass2_props = p2
    for it in r1.failed:      # pass-1 failures stay in the inventory (baseline / UB-NEW triage)
        if it["property"] not in p2:
            r2.failed.append(it)
    r2.status = "violation"
    r2.note = ("two passes: %d obligation(s) were left UNKNOWN behind failing UB-class checks; second pass without %s: %d proved, %d still undecided. "
               % (r1.unknown_n, "/".join(PASS2_OFF), r2.props_ok, getattr(r2, "unknown_n", 0))) + r2.note
    return r2


def _run_harness(ctx, h, pass2=False):
    res = HResult(h=h)
    outdir = ctx.scratch.sub(h.name)
    t0 = time.time()
    gbpath = os.path.join(outdir, h.name + ".gb")
    if pass2 and os.path.exists(gbpath):
        gb = gbpath            # same goto binary as pass 1
    else:
        try:
            if h.gen:
                h.gen(ctx, outdir)
        except Exception as ex:
            res.status, res.note = "error", "generation failed: %s" % ex
            return res
        gb, err = compile_goto(ctx, h, outdir)
        if not gb:
            res.status, res.note = "error", err
            return res
    extra = []
    if h.unwind_funcs:
        rc0, out0, _, _, _ = sh(["cbmc", gb, "--show-loops", "--json-ui"], timeout=120)
        us = []
        try:
            for e in json.loads(out0):
                for lp in e.get("loops", []) if isinstance(e, dict) else []:
                    fn = (lp.get("sourceLocation") or {}).get("function", "")
                    if fn in h.unwind_funcs:
                        us.append("%s:%d" % (lp["name"], h.unwind_funcs[fn]))
        except Exception:
            pass
        # bounds for recursive functions: key "rec:<function>"
        for k, v in h.unwind_funcs.items():
            if k.startswith("rec:"):
                us.append("%s:%d" % (k[4:], v))
        if us:
            extra = ["--unwindset", ",".join(us)]
        h._unwindset = extra
    cmd = cbmc_cmd(h, gb, extra, pass2=pass2)
    res.cmd = " ".join(cmd)
    rc, out, errt, wall, rss = sh(cmd, timeout=h.timeout, mem_gb=h.mem_gb)
    res.wall = time.time() - t0
    res.rss_mb = rss / 1024.0
    if rc == -9:
        if wall >= h.timeout - 1:
            res.status, res.note = "inconclusive", "timeout after %ds" % h.timeout
        else:
            res.status, res.note = "inconclusive", "killed by SIGKILL after %ds (most likely the kernel's out-of-memory killer: other heavy runs at the same time?)" % wall
        return res
    results, status, msgs = parse_cbmc_json(out)
    for m in msgs:
        mm = re.search(r"Runtime (?:decision procedure|Solver): ([0-9.]+)s", m)
        if mm:
            res.solver_s += float(mm.group(1))
        mm = re.search(r"size of program expression: (\d+) steps", m)
        if mm:
            res.program_size = int(mm.group(1))
        mm = re.search(r"Generated (\d+) VCC\(s\), (\d+) remaining", m)
        if mm:
            res.vccs = int(mm.group(2))
    if results is None:
        tail = (errt or out)[-600:]
        if "out of memory" in tail.lower() or "bad_alloc" in tail or rc in (-6, 134, -11):
            res.status, res.note = "inconclusive", "out of memory (limit %s GB) rc=%s" % (h.mem_gb, rc)
        else:
            res.status, res.note = "error", "cbmc produced no result rc=%s: %s" % (rc, tail)
        return res
    res.props_total = len(results)
    wit_total = wit_failed = 0
    unwind_fail = []
    unknown = []
    nobody = []
    for r in results:
        desc = r.get("description", "")
        st = r.get("status")
        if "VF_WITNESS" in desc:
            wit_total += 1
            if st == "FAILURE":
                wit_failed += 1
            continue
        if st == "SUCCESS":
            res.props_ok += 1
            if desc.startswith("VF:"):
                res.user_asserts_ok += 1
            continue
        sl = r.get("sourceLocation", {}) or {}
        item = dict(property=r["property"], description=desc, status=st, file=sl.get("file", ""),
                    line=sl.get("line", ""), function=sl.get("function", ""),
                    cls=sl.get("propertyClass", ""))
        if desc.startswith("no body for callee"):
            fn = desc.split()[-1]
            if fn not in h.allow_nobody:
                nobody.append(fn)
            continue
        if st != "FAILURE":
            unknown.append(item)
        elif "unwinding assertion" in desc or item["cls"] == "unwind":
            unwind_fail.append(item)
        else:
            res.failed.append(item)
    res.witness_ok = wit_total > 0 and wit_failed == wit_total
    res.unknown_n = len(unknown)
    res.unknown_vf = sum(1 for u in unknown if u["description"].startswith("VF:") or u["description"].startswith("assertion "))
    if nobody:
        # a reachable call without a body silently returns nondet: never accept that implicitly
        res.status, res.note = "error", "reachable functions without body (add the real source or an explicit stub): " + ",".join(sorted(set(nobody)))
    elif unwind_fail and not res.failed:
        res.status = "bound"
        res.note = "unwinding assertion failed: " + "; ".join(
            "%s@%s:%s" % (u["property"], u["file"], u["line"]) for u in unwind_fail[:4])
        res.failed = unwind_fail
    elif res.failed:
        # real failures take precedence over a simultaneously failing unwinding assertion (memory corruption
        # can make loop bounds symbolic); they still have to reproduce natively to be reported
        res.status = "violation"
        if unwind_fail:
            res.note = "also: unwinding assertion failed: " + "; ".join(
                "%s@%s:%s" % (u["property"], u["file"], u["line"]) for u in unwind_fail[:4])
            res.bound_failed = True
    elif unknown:
        res.status, res.note = "inconclusive", "%d properties with status %s" % (len(unknown), unknown[0]["status"])
    elif not res.witness_ok:
        res.status, res.note = "vacuous", "witness assertion not reachable (%d/%d)" % (wit_failed, wit_total)
    else:
        res.status = "hold"
    return res


# --------------------------------------------------------------------------
# replay
# --------------------------------------------------------------------------
def get_trace_values(ctx, h, prop_id):
    """values the solver chose for the vf_uN() calls, in call order.  First without --slice-formula (every call is in
    the trace); if that run has no verdict (memory/time), with it: calls outside the cone of influence are then
    missing from the trace, so the list is only a candidate - which is all it ever is: a counterexample counts only
    when the natively compiled harness fails on it."""
    outdir = ctx.scratch.sub(h.name)
    gb = os.path.join(outdir, h.name + ".gb")
    base = cbmc_cmd(h, gb, getattr(h, "_unwindset", []) + ["--trace", "--property", prop_id], pass2=prop_id in getattr(h, "_pass2_props", ()))
    for cmd in ([c for c in base if c != "--slice-formula"], base):
        rc, out, err, wall, _ = sh(cmd, timeout=max(h.timeout, 600), mem_gb=h.mem_gb)
        results, status, msgs = parse_cbmc_json(out)
        for r in results or []:
            if r["property"] != prop_id or "trace" not in r:
                continue
            vals = []
            for s in r["trace"]:
                if s.get("stepType") != "assignment":
                    continue
                lhs = s.get("lhs", "")
                m = re.match(r"goto_symex\$\$return_value\$\$vf_u(8|16|32|64)$", lhs)
                if m:
                    b = (s.get("value") or {}).get("binary")
                    vals.append(int(b, 2) if b else 0)
            return vals
        if "--slice-formula" not in base:
            break
    return None


def write_replay(ctx, h, vals, tag):
    rdir = os.path.join(EVIDENCE, "replay")
    os.makedirs(rdir, exist_ok=True)
    base = "%s-%s%s" % (ctx.pid, h.name, tag)
    gen_src = ctx.scratch.sub(h.name)
    gen_dst = os.path.join(rdir, base + ".gen")
    shutil.rmtree(gen_dst, ignore_errors=True)
    # keep generated headers next to the replay so it stays buildable
    gens = [f for f in os.listdir(gen_src) if f.endswith((".h", ".inc", ".c")) and not f.endswith(".gb")]
    if gens:
        os.makedirs(gen_dst, exist_ok=True)
        for f in gens:
            shutil.copy(os.path.join(gen_src, f), gen_dst)
    path = os.path.join(rdir, base + ".c")
    src = _src_path(h)
    if os.path.isabs(h.src) and h.src.startswith(ctx.scratch.dir):
        # generated harness: copy it
        os.makedirs(gen_dst, exist_ok=True)
        shutil.copy(h.src, gen_dst)
        src = os.path.join(gen_dst, os.path.basename(h.src))
    inc = ["-I" + gen_dst] if os.path.isdir(gen_dst) else []
    cc = ["gcc", "-g", "-O0", "-w", "-std=gnu99", "-fsanitize=address,undefined",
          "-fno-sanitize=signed-integer-overflow,alignment", "-fno-sanitize-recover=undefined",
          "-DVF_REPLAY=1"] + repo_defines() + h.defines + [i for i in h.includes if "@OUTDIR@" not in i] + repo_includes() + inc
    extra = [s if os.path.isabs(s) else os.path.join(REPO, s) for s in h.extra_srcs]
    with open(path, "w") as f:
        f.write("/* replay of a CBMC counterexample: property %s harness %s\n" % (ctx.pid, h.name))
        f.write("   build+run: %s %s %s -o /var/tmp/replay.bin <libyara.a built from /repo> -Wl,--allow-multiple-definition %s && /var/tmp/replay.bin\n" %
                (" ".join(cc), path, " ".join(extra), " ".join(NATIVE_LIBS + h.replay_libs)))
        f.write("   exit 42 / sanitizer report = the violation reproduces on the natively compiled real code */\n")
        f.write("#include <stdint.h>\n")
        f.write("const uint64_t vf_replay_vals[] = {%s};\n" % (", ".join("0x%xULL" % v for v in vals) or "0"))
        f.write("const unsigned vf_replay_n = %d;\n" % len(vals))
        f.write('#include "%s"\n' % src)
    exe = os.path.join(ctx.scratch.sub(h.name), "replay.bin")
    # whatever the harness TU does not define itself comes from the natively built working tree
    try:
        lib = [ctx.native_lib(), "-Wl,--allow-multiple-definition"]
    except Exception as ex:
        lib = []
    rc, out, err, _, _ = sh(cc + [path] + extra + ["-o", exe] + lib + NATIVE_LIBS + h.replay_libs, timeout=600)
    if rc != 0:
        return path, "build-failed", err[-1500:]
    env = dict(os.environ, ASAN_OPTIONS="detect_leaks=%d:abort_on_error=0:exitcode=43" % (1 if h.leak_check else 0), UBSAN_OPTIONS="print_stacktrace=1")
    rc, out, err, _, _ = sh([exe], timeout=120, env=env)
    if rc == 42 or "VF_ASSERT_FAILED" in err:
        return path, "reproduced", err[-800:]
    if rc == 3:
        return path, "assume-false", err[-800:]
    if rc != 0:
        return path, "reproduced-crash", err[-1500:]
    return path, "not-reproduced", ""


# --------------------------------------------------------------------------
# known findings / UB baseline
# --------------------------------------------------------------------------
def load_known():
    """known_findings.txt lines:
         known: property=C08 harness=<name> assert=<substring> :: <what fails>
         fixed: property=C12 <commit> <what failed>
    """
    known = []
    p = os.path.join(VERIF, "known_findings.txt")
    if os.path.exists(p):
        for line in open(p):
            line = line.strip()
            if not line.startswith("known:"):
                continue
            m = re.match(r"known:\s+property=(\S+)\s+harness=(\S+)\s+assert=(.*?)\s+::\s+(.*)$", line)
            if m:
                known.append(dict(pid=m.group(1), harness=m.group(2), sub=m.group(3).strip('"'), what=m.group(4)))
    return known


def load_ub_baseline():
    """ub_baseline.txt: standard-check failures CBMC reports on the unchanged
    tree that are C-standard-level UB with no observable misbehaviour under the
    build the project uses (triaged by reading; see DESIGN.md section 6).
    key: file|function|class|description-substring"""
    base = []
    p = os.path.join(VERIF, "ub_baseline.txt")
    if os.path.exists(p):
        for line in open(p):
            line = line.split("#")[0].strip()
            if not line:
                continue
            parts = [x.strip() for x in line.split("|")]
            if len(parts) >= 4:
                base.append(parts[:4])
    return base


def ub_match(item, base):
    f = os.path.basename(item["file"])
    for bf, bfn, bcls, bdesc in base:
        if bf == f and (bfn == "*" or bfn == item["function"]) and (bcls == "*" or bcls == item["cls"] or bcls.replace("_", " ") == item["cls"]) \
                and bdesc in item["description"]:
            return True
    return False


# --------------------------------------------------------------------------
# driver
# --------------------------------------------------------------------------
def run_property(pid, harnesses, tier, seed, level="model_checking", assumptions=(), explanation="", technique=""):
    """Runs all harnesses, prints the verdict lines, writes the evidence, returns exit code."""
    t0 = time.time()
    ctx = run_property.ctx
    known = [k for k in load_known() if k["pid"] == pid]
    ubase = load_ub_baseline()
    order = sorted(harnesses, key=lambda h: -h.weight)
    if seed:
        import random
        rnd = random.Random(seed)
        rnd.shuffle(order)
        order.sort(key=lambda h: -h.weight)
    only = os.environ.get("VERIF_ONLY")
    if only:
        pats = only.split(",")
        order = [h for h in order if any(re.search(p, h.name) for p in pats)]
    results = []
    with ThreadPoolExecutor(max(1, ctx.jobs)) as ex:
        futs = [ex.submit(run_harness, ctx, h) for h in order]
        for f, h in zip(futs, order):
            try:
                r = f.result()
            except Exception as e:
                r = HResult(h=h, status="error", note="driver exception: %r" % e)
            results.append(r)
            if os.environ.get("VERIF_VERBOSE"):
                print("  [%s] %-40s %-12s %6.1fs %6.0fMB %s" % (pid, h.name, r.status, r.wall, r.rss_mb, r.note[:200]), flush=True)

    violations, known_lines, ub_new, ub_known, broken, inconclusive = [], [], [], [], [], []
    for r in results:
        h = r.h
        if r.status in ("error", "vacuous", "bound"):
            broken.append((h.name, r.status, r.note))
            continue
        if r.status == "inconclusive":
            inconclusive.append((h.name, r.note))
            continue
        # expected failures of a known-finding harness
        real_fail = []
        for it in r.failed:
            kn = None
            for k in known:
                if k["harness"] == h.name and k["sub"] in it["description"]:
                    kn = k
            if kn:
                known_lines.append("KNOWN-FINDING: property=%s %s [harness %s: %s]" % (pid, kn["what"], h.name, it["description"]))
                continue
            if ub_match(it, ubase):
                ub_known.append(it)
                continue
            real_fail.append(it)
        if real_fail:
            # replay the first few distinct failures
            done = 0
            reproduced = False
            for it in real_fail:
                if done >= 3:
                    break
                done += 1
                vals = get_trace_values(ctx, h, it["property"])
                if vals is None:
                    broken.append((h.name, "trace", "no trace for %s" % it["property"]))
                    continue
                path, st, msg = write_replay(ctx, h, vals, "" if done == 1 else "-%d" % done)
                it["replay"] = path
                it["replay_status"] = st
                if st in ("reproduced", "reproduced-crash"):
                    reproduced = True
                    violations.append((h.name, it, path))
                    break
                elif st == "not-reproduced" and (it["cls"] in ("pointer-overflow", "pointer_arithmetic", "overflow", "pointer-primitive")
                                                 or "pointer relation" in it["description"]
                                                 or "same object violation" in it["description"]
                                                 or "pointer arithmetic" in it["description"]
                                                 or "arithmetic overflow" in it["description"]):
                    ub_new.append(it)
                else:
                    broken.append((h.name, "replay-" + st, "%s (%s): %s" % (it["description"], it["property"], msg[-300:])))
            if not reproduced and r.bound_failed:
                broken.append((h.name, "bound", r.note))
            if reproduced:
                r.status = "violation"
            elif all(i.get("replay_status") == "not-reproduced" and i in ub_new for i in real_fail[:done]):
                r.status = "hold-ub"
        elif r.bound_failed:
            # only baseline UB / known findings failed besides an unwinding assertion: the bound is still too small
            r.status = "bound"
            broken.append((h.name, "bound", r.note))
        else:
            r.status = "hold" if r.witness_ok else "vacuous"
            if r.status == "vacuous":
                broken.append((h.name, "vacuous", "witness unreachable"))
    # soundness of the 'only UB / known findings failed' paths: every other obligation must have been DECIDED and the
    # reachability witness must have been reached
    for r in results:
        if r.status in ("hold", "hold-ub", "known") and getattr(r, "unknown_vf", 0) > 0:
            r.status = "inconclusive"
            inconclusive.append((r.h.name, "%d functional assertion(s) left undecided (status UNKNOWN) behind failing UB/known items, also after the second pass" % r.unknown_vf))
        elif r.status in ("hold", "hold-ub", "known") and getattr(r, "unknown_n", 0) > 0:
            # CBMC-generated checks that stay UNKNOWN after pass 2 sit behind a failing check that cannot be switched off separately
            # (pointer relation across objects, the listed known finding): they are decided on the paths that do not go through it
            r.note = ("%d generated check(s) decided only on the paths that do not go through the listed UB / known finding (CBMC cuts paths at a failing pointer-relation or assert); all functional assertions decided. " % r.unknown_n) + r.note
        elif r.status == "hold-ub" and not r.witness_ok:
            r.status = "vacuous"
            broken.append((r.h.name, "vacuous", "witness unreachable"))
    # a listed known finding whose harness no longer fails is fine (maybe fixed) - nothing printed.

    for l in sorted(set(known_lines)):
        print(l)
    for it in ub_new:
        print("UB-NEW (not reproducible natively, reported separately, not a violation): %s:%s %s %s" % (
            it["file"], it["line"], it["function"], it["description"]))
    for name, it, path in violations:
        print("VIOLATION property=%s replay=%s" % (pid, path))
        print("  harness=%s assertion=%r at %s:%s (%s)" % (name, it["description"], it["file"], it["line"], it["function"]))
    for name, st, note in broken:
        print("BROKEN harness=%s kind=%s %s" % (name, st, note[:1500]))
    for name, note in inconclusive:
        print("INCONCLUSIVE harness=%s %s" % (name, note))

    held = [r for r in results if r.status in ("hold", "hold-ub")]
    wall = time.time() - t0
    ev = {
        "property_id": pid,
        "tier": tier,
        "seed": int(seed or 0),
        "level": level,
        "coverage": {
            "evaluations": sum(r.props_total for r in results),
            "distinct_nontrivial": sum(r.user_asserts_ok for r in held if r.witness_ok),
            "rule": "one case = one solver-discharged obligation (CBMC property) of a harness over the real code; "
                    "evaluations counts all obligations incl. CBMC's generated pointer/bounds/overflow/unwinding checks; "
                    "distinct_nontrivial counts only the hand-written functional assertions (description 'VF: ...') that were proved "
                    "in a harness whose reachability witness (assert(0) at harness end) was shown reachable, i.e. non-vacuous",
            "samples": [dict(harness=r.h.name, what=r.h.desc, bounds=r.h.bounds, status=r.status,
                             obligations=r.props_total, functional_assertions_proved=r.user_asserts_ok,
                             wall_s=round(r.wall, 1), solver_s=round(r.solver_s, 2), rss_mb=round(r.rss_mb),
                             program_steps=r.program_size, unwind=r.h.unwind,
                             cbmc_flags=r.h.flags, solver=r.h.solver, defines=r.h.defines,
                             functions=r.h.functions, stubs=r.h.stubs, note=r.note) for r in results],
            "harnesses": len(results),
            "harnesses_held": len(held),
            "queries_discharged": sum(r.props_ok for r in results),
            "solver_time_s": round(sum(r.solver_s for r in results), 2),
            "explanation": explanation,
            "technique": technique or "CBMC bounded symbolic execution of the real C sources (goto-cc), SAT back end",
            "ub_inventory_known": sorted(set("%s:%s %s" % (os.path.basename(i["file"]), i["function"], i["description"]) for i in ub_known)),
            "ub_new": ["%s:%s %s" % (i["file"], i["line"], i["description"]) for i in ub_new],
            "known_findings_printed": sorted(set(known_lines)),
            "inconclusive": [n for n, _ in inconclusive],
            "broken": [n for n, _, _ in broken],
            "exhaustive": False,
        },
        "assumptions": list(assumptions),
        "wall_s": round(wall, 2),
        "violations": len(violations),
    }
    os.makedirs(EVIDENCE, exist_ok=True)
    with open(os.path.join(EVIDENCE, pid + ".json"), "w") as f:
        json.dump(ev, f, indent=1)
    print("%s tier=%s harnesses=%d held=%d obligations=%d violations=%d broken=%d inconclusive=%d wall=%.1fs" % (
        pid, tier, len(results), len(held), ev["coverage"]["evaluations"], len(violations), len(broken), len(inconclusive), wall))
    if violations:
        return 1
    if broken or inconclusive:
        return 2
    return 0


# --------------------------------------------------------------------------
# native stage: image dumper
# --------------------------------------------------------------------------
import threading
_tool_lock = threading.Lock()


def native_tool(ctx, tool, scale_defs=()):
    """build harness/native/<tool>.c against the scratch native libyara (built with scale_defs)"""
    key = "tool_%s_%s" % (tool, hashlib.md5(" ".join(scale_defs).encode()).hexdigest()[:8])
    with _tool_lock:
        exe = os.path.join(ctx.scratch.sub("tools"), key)
        if os.path.exists(exe):
            return exe
        lib = ctx.native_lib(tuple(scale_defs), name="native_" + hashlib.md5(" ".join(scale_defs).encode()).hexdigest()[:8])
        cmd = ["gcc", "-O1", "-g", "-w", "-std=gnu99"] + repo_defines() + list(scale_defs) + repo_includes() + \
              [os.path.join(HARNESS, "native", tool + ".c"), lib, "-o", exe] + NATIVE_LIBS
        rc, out, err, _, _ = sh(cmd, timeout=600)
        if rc != 0:
            raise RuntimeError("building %s failed: %s" % (tool, err[-2000:]))
        return exe


def dump_image(ctx, outdir, prefix, rules_text, scale_defs=(), fname=None, externals=()):
    """compile rules_text with the real compiler (native stage) and write <outdir>/<fname> (typed C image)"""
    exe = native_tool(ctx, "vfdump", scale_defs)
    fname = fname or ("img_%s.h" % prefix.rstrip("_").lower())
    rf = os.path.join(outdir, fname + ".yar")
    with open(rf, "w") as f:
        f.write(rules_text)
    rc, out, err, _, _ = sh([exe, prefix, rf] + list(externals), timeout=120)
    if rc != 0:
        raise RuntimeError("vfdump failed (rc=%s) on rules %r: %s" % (rc, rules_text[:200], err[-1000:]))
    with open(os.path.join(outdir, fname), "w") as f:
        f.write(out)
    return out
