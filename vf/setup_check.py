#!/usr/bin/env python3
"""MANIFEST.setup_cmd: nothing is prebuilt (every check regenerates everything from /repo's working tree);
this only verifies that the tools the checks need are present."""
import shutil, subprocess, sys
need = ["cbmc", "goto-cc", "gcc", "ar", "z3", "bison", "flex"]
missing = [t for t in need if not shutil.which(t)]
if missing:
    print("missing tools:", missing)
    sys.exit(1)
print(subprocess.run(["cbmc", "--version"], capture_output=True, text=True).stdout.strip())
print("setup ok")
