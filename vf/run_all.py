#!/usr/bin/env python3
"""runs every claimed check's quick (or thorough) command sequentially, the way MANIFEST.json registers them"""
import json, os, subprocess, sys, time
VERIF = os.path.dirname(os.path.dirname(os.path.abspath(__file__)))
tier = sys.argv[1] if len(sys.argv) > 1 else "quick"
only = sys.argv[2].split(",") if len(sys.argv) > 2 else None
man = json.load(open(os.path.join(VERIF, "MANIFEST.json")))
rows = []
for c in man["checks"]:
    if only and c["property_id"] not in only:
        continue
    cmd = c["quick_cmd"] if tier == "quick" else c["thorough_cmd"]
    t0 = time.time()
    p = subprocess.run(cmd, shell=True, cwd=VERIF, capture_output=True, text=True)
    dt = time.time() - t0
    last = [l for l in p.stdout.strip().split("\n") if l][-1:] or [""]
    flag = [l for l in p.stdout.split("\n") if l.startswith(("VIOLATION", "BROKEN", "INCONCLUSIVE", "KNOWN-FINDING", "UB-NEW"))]
    rows.append((c["property_id"], p.returncode, dt))
    print("%s rc=%d %.0fs %s" % (c["property_id"], p.returncode, dt, last[0][:160]), flush=True)
    for f in flag:
        print("    " + f[:220], flush=True)
print("SUMMARY", " ".join("%s:%d" % (r[0], r[1]) for r in rows), "total %.0fs" % sum(r[2] for r in rows))
