#!/usr/bin/env python3
"""seed_check.py <seed-id> <property> <worktree> <agent-out-dir>
Confirms a sub-agent's seeded change (suite passes with it, demonstration fails with it and passes on /repo), stores it as
/verif/seeded/<seed-id>/ and runs the property's quick check against the changed tree (VERIF_REPO=<worktree>)."""
import json, os, shutil, subprocess, sys, time
sid, pid, wt, out = sys.argv[1:5]
VERIF = os.path.dirname(os.path.dirname(os.path.abspath(__file__)))
dst = os.path.join(VERIF, "seeded", sid)
os.makedirs(dst, exist_ok=True)


def sh(cmd, **kw):
    p = subprocess.run(cmd, shell=True, capture_output=True, text=True, **kw)
    return p.returncode, (p.stdout + p.stderr)


ran = {}
rc, o = sh("git -C %s diff -- libyara cli" % wt)
open(os.path.join(dst, "patch.diff"), "w").write(o)
rc, o = sh("cd %s && make -j8 >/dev/null 2>&1; make check 2>&1 | grep -E '^# (PASS|FAIL|ERROR)'" % wt)
ran["make check with the change"] = o.strip().replace("\n", " ")
demo_with = demo_without = None
if os.path.exists(os.path.join(out, "demo.c")):
    shutil.copy(os.path.join(out, "demo.c"), dst)
    import re as _re
    wraps = " ".join(sorted(set(_re.findall(r"-Wl,--wrap=[A-Za-z0-9_]+", open(os.path.join(out, "demo.c"), errors="replace").read()))))
    for name, root in (("with", wt), ("without", "/repo")):
        exe = "/var/tmp/seed_demo_%s_%s" % (sid, name)
        rc, o = sh("gcc -w -I%s/libyara/include -I%s/libyara %s/demo.c %s/.libs/libyara.a -lcrypto -lm -lpthread %s -o %s && %s" % (root, root, out, root, wraps, exe, exe), cwd=out)
        ran["demo.c %s the change (lib of %s)" % (name, root)] = "exit %d: %s" % (rc, o.strip()[-300:])
        if name == "with":
            demo_with = rc
        else:
            demo_without = rc
        if os.path.exists(exe):
            os.remove(exe)
elif os.path.exists(os.path.join(out, "demo.sh")):
    shutil.copy(os.path.join(out, "demo.sh"), dst)
    for name, root in (("with", wt), ("without", "/repo")):
        rc, o = sh("chmod +x %s/demo.sh; WT=%s %s/demo.sh" % (out, root, out), cwd=out)
        ran["demo.sh %s the change (WT=%s)" % (name, root)] = "exit %d: %s" % (rc, o.strip()[-300:])
        if name == "with":
            demo_with = rc
        else:
            demo_without = rc
t0 = time.time()
rc, o = sh("VERIF_EVIDENCE_DIR=/var/tmp/seed_evidence_%s VERIF_REPO=%s python3 vf/run.py %s --tier quick" % (sid, wt, pid), cwd=VERIF)
shutil.rmtree("/var/tmp/seed_evidence_%s" % sid, ignore_errors=True)
viol = [l for l in o.split("\n") if l.startswith("VIOLATION") or l.strip().startswith("harness=")]
ran["check %s quick against the changed tree" % pid] = "exit %d in %.0fs; %s" % (rc, time.time() - t0, " | ".join(v.strip()[:200] for v in viol[:4]) or o.strip().split("\n")[-1][:200])
meta = {}
try:
    meta = json.load(open(os.path.join(out, "meta.json")))
except Exception:
    pass
meta.update({"seed_id": sid, "property": pid, "confirmed": {"suite_passes_with_change": "FAIL:  0" in ran["make check with the change"],
                                                          "demo_fails_with_change": demo_with not in (0, None),
                                                          "demo_passes_without_change": demo_without == 0},
             "detected_by_check": rc == 1, "what_i_ran": ran})
json.dump(meta, open(os.path.join(dst, "meta.json"), "w"), indent=1)
print(json.dumps({k: meta[k] for k in ("seed_id", "confirmed", "detected_by_check")}, indent=1))
for k, v in ran.items():
    print(" *", k, "->", v[:300])
