"""C17 - damaged / truncated compiled-rule files are rejected."""
from vf.common import Harness

LEVEL = "model_checking"
TECHNIQUE = "CBMC bounded symbolic execution of arena.c/rules.c loaders on an arbitrary byte stream (every prefix and corruption at once)"
ASSUMPTIONS = [
    "file length <= 96 bytes (quick) / 128 (thorough); header declares <= 2 buffers in the arena-level harness",
    "stream read callback has fread semantics (complete items only)",
    "malloc does not fail here (allocation failure is C16)",
]
LEVEL_TEXT = ("Bounded model checking of the real loader over ALL byte strings up to the bound: every truncation point and every "
              "single- or multi-field corruption is a point of the symbolic input, so no enumeration of prefixes is needed.")
LEVEL_NOTE = "; ".join(ASSUMPTIONS)


def harnesses(ctx, tier):
    F = 64 if tier == "quick" else 96
    nrel = (F - 6) // 8 + 2
    hs = []
    for sz, what in ((3, "no assumption on declared sizes"),):
        hs.append(Harness(name="H1_arena_load_any_bytes_sizes%d" % sz, src="c17/load.c",
                  defines=["-DVF_MODE=1", "-DVF_F=%d" % F, "-DVF_NB=2", "-DVF_SIZES=%d" % sz],
                  unwind=4, flags=["--unwindset", "rd.0:%d,rd.1:4,vf_fill.0:%d,_yr_arena_allocate_memory.0:34,memcmp.0:10,yr_arena_load_stream.1:%d,main.0:%d,main.1:%d,main.2:%d,yr_arena_release.0:%d,yr_arena_release.1:4,inside_some_buffer.0:4" % (F + 1, F + 1, nrel, nrel, nrel, nrel, nrel)],
                  timeout=1500, mem_gb=24,
                  desc="yr_arena_load_stream on arbitrary file bytes; case: " + what, bounds="file <= %d bytes (length symbolic = every truncation), <= 2 buffers" % F,
                  functions=["yr_arena_load_stream", "yr_arena_create", "yr_arena_allocate_memory", "yr_arena_make_ptr_relocatable", "yr_arena_ref_to_ptr", "yr_arena_release", "yr_stream_read"]))
    hs.append(Harness(name="H3_prefix_of_saved_file", src="c08/roundtrip.c", defines=["-DVF_MODE=2"], unwind=4,
              unwind_funcs={"vf_fill": 26, "vf_wr": 27, "vf_rd": 27, "memcmp": 26, "main": 26, "is_slot": 4, "build": 4}, timeout=900,
              desc="a well-formed file written by the real yr_arena_save_stream (symbolic arena) cut at EVERY byte position (symbolic n < |F|): yr_arena_load_stream must not succeed",
              bounds="file of 70..86 bytes, 2 buffers, <=2 relocation entries; prefix length symbolic",
              functions=["yr_arena_save_stream", "yr_arena_load_stream"]))
    B = 100
    hs.append(Harness(name="H2_rules_from_any_arena", src="c17/load.c", defines=["-DVF_MODE=3", "-DVF_B=%d" % B, "-DVF_F=8"],
              unwind=18, flags=["--unwindset", "vf_fill.0:%d,yr_rules_from_arena.0:4" % (B + 1)],
              timeout=900, mem_gb=16,
              desc="yr_rules_from_arena on ANY arena yr_arena_load_stream can return (0..16 buffers, each empty or <= %d symbolic bytes)" % B,
              bounds="buffers <= %d bytes: room for 2 rules / 2 strings / 3 externals; num_rules etc. arbitrary 32-bit" % B,
              functions=["yr_rules_from_arena", "yr_arena_get_ptr", "yr_arena_acquire"]))
    return hs
