"""C10 - a scanner's results do not depend on its scan history."""
from vf.common import Harness, dump_image

LEVEL = "model_checking"
TECHNIQUE = "CBMC inductive step on the real scan code: at-rest invariant re-established on every exit (reporting-loop harness with arbitrary verdict bits/errors/callback answers) and 2-safety of a scan against every history-carrying scanner field (real whole scan on a compiled image)"
ASSUMPTIONS = ["H3: the MATCH instruction of the regex VM (cut from yr_re_exec, shared with C03): a failing match callback returns every fiber to the pool",
               "the at-rest invariant (all match lists/bitmaps zero, notebook NULL) is the induction hypothesis; history-carrying fields outside it (entry_point, file_size, last_error_string, iterator) are arbitrary",
               "rule evaluated unconditionally (no_required_strings bit) for tractability; data <= 4 bytes, one block",
               "module data ('unload is called') is checked in C04 (modules unloaded on every VM exit); CLI reuse is C18"]
LEVEL_TEXT = "One inductive step covers scan histories of any length: every exit re-establishes the invariant, and nothing outside the invariant influences a scan."
LEVEL_NOTE = "; ".join(ASSUMPTIONS)


def _shared_c03(ctx, tier):
    """the MATCH instruction of the regex VM (C03.H1, cut from yr_re_exec): on a callback error every fiber is back in the pool"""
    from vf.props import c03
    for h in c03.harnesses(ctx, tier):
        if h.name == "H1_step_MATCH":
            h.name = "H3_regex_fibers_returned_on_callback_error"
            h.desc = "a failing match callback (match limit reached mid-run) must not leave fibers outside the pool: later scans on the same scanner start from a full pool (shared with C03: " + h.desc + ")"
            return [h]
    return []


def _own_harnesses(ctx, tier):
    N = 5 if tier == "thorough" else 4
    rule = 'rule r { strings: $a = "ab" condition: #a + filesize + entrypoint == 7 }\n'

    def gen(ctx_, outdir):
        dump_image(ctx_, outdir, "IMG_", rule, fname="img_img.h")
    return [
        Harness(name="H1_every_exit_cleans", src="c11/report.c", unwind=8, timeout=600, unwind_funcs={"vf_init_tables": 257},
                desc="yr_scanner_scan_mem_blocks with arbitrary evaluation result / verdict bits / callback answers: the scanner is at rest after every exit",
                bounds="3 rules; all error codes, all callback answer sequences", functions=["yr_scanner_scan_mem_blocks", "_yr_scanner_clean_matches"]),
        Harness(name="H2_history_fields_do_not_matter", src="c10/history.c", defines=["-DVF_N=%d" % N], gen=gen, unwind=N + 3, timeout=900,
                unwind_funcs={"vf_init_tables": 257, "yr_execute_code": 20, "vf_trace_eq": 9, "yr_arena_ptr_to_ref": 4, "memcmp": 9},
                flags=["--object-bits", "10"],
                desc="fresh scanner vs scanner with arbitrary entry_point/file_size/last_error_string/iterator on the same symbolic data; rule: " + rule.strip(),
                bounds="data <= %d bytes, entry point value arbitrary" % N,
                functions=["yr_scanner_scan_mem_blocks", "_yr_scanner_scan_mem_block", "yr_execute_code (OP_COUNT, OP_FILESIZE, OP_ENTRYPOINT)"]),
    ]


def harnesses(ctx, tier):
    return _own_harnesses(ctx, tier) + _shared_c03(ctx, tier)
