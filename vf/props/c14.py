"""C14 - hash, math and string module functions compute their definitions."""
import os
from vf.common import Harness, REPO

LEVEL = "model_checking"
TECHNIQUE = "CBMC bounded symbolic execution of the module functions (libyara/modules/hash, math, string) with the module glue stubbed, against bitwise reference definitions"
ASSUMPTIONS = ["digest primitives (MD5/SHA: OpenSSL) are FFI and not modelled: the md5/sha1/sha256 walkers share the range logic of checksum32/crc32 which IS checked; digest values are outside",
               "<= 2 blocks x 3 bytes, symbolic bases/gap, |offset|,|length| < 2^40", "digest cache: sha1/md5 on 1 block <= 4 bytes, offsets/lengths 0..5, OpenSSL replaced by a stand-in that is injective on these inputs", "math: min/max/abs/to_number (all values), count (2 blocks); mode and the floating point statistics are not covered", "libm-based statistics (entropy, deviation, ...) are outside"]
LEVEL_TEXT = "Bounded model checking of the range walkers and integer kernels for all offsets/lengths/bytes in the bound."
LEVEL_NOTE = "; ".join(ASSUMPTIONS)


def harnesses(ctx, tier):
    inc = ["-I" + os.path.join(REPO, "libyara", "modules")]
    hs = []
    for name, f in (("checksum32", 1), ("crc32", 2)):
        hs.append(Harness(name="H1_data_" + name, src="c14/walkers.c", defines=["-DVF_FUNC=%d" % f], includes=inc, unwind=6, timeout=900,
                          unwind_funcs={"ref_crc32_byte": 9},
                          desc="hash.%s(offset, length) range walker on 2 symbolic blocks vs bitwise reference" % name,
                          bounds="2 blocks x <=3 bytes, base 0..3, gap 0..2, |offset|,|length| < 2^40", functions=["data_" + name], stubs=["yr_object_set_integer sink", "block iterator", "yr_fetch_block_data"]))
    for f, name, uw in ((1, "minmaxabs", 4), (2, "count", 8)):   # math.mode (256-way scan of the histogram): no verdict in 900 s
        hs.append(Harness(name="H4_math_" + name, src="c14/mathfn.c", defines=["-DVF_FUNC=%d" % f], includes=inc, unwind=uw, timeout=900,
                          unwind_funcs={"mode_range": 258, "get_distribution": 8, "memset": 1100} if f > 1 else {},
                          desc="math.%s on the real math.c vs direct definitions" % name,
                          bounds="all 64-bit arguments" if f == 1 else "2 blocks x <=3 bytes, |offset|,|length| < 2^40, any probe byte",
                          functions=["min", "max", "yr_math_abs", "to_number"] if f == 1 else ["count_range" if f == 2 else "mode_range", "get_distribution"],
                          stubs=["yr_object_set_integer sink", "block iterator"]))
    hs.append(Harness(name="H3_digest_cache", src="c14/cache.c", includes=inc, unwind=7, timeout=900, flags=["--object-bits", "10"],
                      unwind_funcs={"digest_to_ascii": 34, "memcmp": 18, "hash": 18, "yr_hash": 18, "memset": 40, "yr_hash_table_create": 4, "_yr_hash_table_lookup": 4, "strlen": 44, "strcpy": 44, "strcmp": 8, "yr_strdup": 44, "memcpy": 44},
                      desc="hash.sha1/md5 called for range 1 then range 2 in one scan vs range 2 alone (digest cache keys)",
                      bounds="1 block <= 4 bytes, offsets/lengths 0..5, both algorithms", functions=["data_sha1", "data_md5", "get_from_cache", "add_to_cache", "yr_hash_table_add_raw_key", "yr_hash_table_lookup_raw_key"],
                      stubs=["OpenSSL EVP digest -> injective stand-in", "sprintf(%02x) contract", "yr_object_set_string sink"]))
    return hs

