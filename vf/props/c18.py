"""C18 - command-line results are independent of thread count (queue protocol + per-thread scanner reuse)."""
from vf.common import Harness
from vf.props import c10

LEVEL = "model_checking"
TECHNIQUE = ("CBMC bounded symbolic execution of the real cli/yara.c file queue (file_queue_init/put/get/finish) as an inductive step from an "
             "arbitrary ring state satisfying the queue invariant (semaphores as counters, mutex discipline asserted), the scanning_thread consumer loop over that queue with arbitrary scan results, plus the scanner-reuse "
             "inductive step shared with C10 (every scan exit re-establishes the at-rest state)")
ASSUMPTIONS = [
    "CBMC refuses real threads over cli/yara.c (pointer-typed shared state, DESIGN P15): schedules are covered at CALL granularity - each put/get/finish is atomic "
    "(justified by its wait / lock / unlock / release structure, which the mutex and semaphore stubs assert) and is checked from EVERY ring state satisfying the invariant, "
    "which covers call interleavings of any length and any thread count by induction",
    "MAX_QUEUED_FILES is the real 64 (head, tail, count symbolic over the whole ring); semaphore = counter, a wait on 0 is a disabled step; timeouts (deadline) not modelled",
    "H3: the consumer loop of scanning_thread runs over the real queue with <= 2 queued files and arbitrary scan results / open failures: the thread stops only when the queue gave it NULL, each file is scanned once",
    "thread-count independence of the OUTPUT is composed, not solved: exactly-once FIFO delivery (H1) + consumers drain the queue whatever the scans return (H3) + per-thread scanner reuse leaves no trace (H2 = C10.H1) + shared rules are not written (C09) + compiled vs source rules (C08)",
    "directory walking, output formatting and its mutex, option handling, exit status, yarac are outside",
]
LEVEL_TEXT = "Inductive step over the queue invariant: no queued file is overwritten or lost, every file is delivered exactly once in FIFO order, every consumer terminates after finish; scanner reuse re-establishes the at-rest state on every exit."
LEVEL_NOTE = "; ".join(ASSUMPTIONS)


def harnesses(ctx, tier):
    hs = [Harness(name="H1_file_queue_step", src="c18/queue.c", unwind=70, timeout=600, mem_gb=12,
                  extra_srcs=["cli/args.c", "cli/common.c"],
                  desc="one call of file_queue_put / file_queue_get / file_queue_finish from an arbitrary ring state satisfying the queue invariant",
                  bounds="ring of 65 slots, head/count/finish tokens symbolic; one call per query (inductive step)",
                  functions=["file_queue_init", "file_queue_put", "file_queue_get", "file_queue_finish"],
                  stubs=["cli_semaphore_* -> counters (wait on 0 = disabled step)", "cli_mutex_* -> held flag with discipline assertions"])]
    hs.append(Harness(name="H3_consumer_loop", src="c18/consumer.c", unwind=5, timeout=600, mem_gb=12, extra_srcs=["cli/args.c", "cli/common.c"],
                      unwind_funcs={"file_queue_finish": 40},
                      desc="scanning_thread over the real queue: with <= 2 queued files, finish signalled and arbitrary scan results, the thread stops only on an empty queue and scans every file once",
                      bounds="<= 2 queued files, every scan result / open failure symbolic, deadline not reached",
                      functions=["scanning_thread", "scan_file", "file_queue_get", "file_queue_put", "file_queue_finish"],
                      stubs=["open/close/time/yr_scanner_scan_fd/yr_scanner_set_timeout", "semaphores = counters"]))
    for h in c10.harnesses(ctx, tier):
        if h.name.startswith("H1_"):
            h.name = "H2_scanner_reuse_" + h.name[3:]
            h.desc = "C18 view (one scanner per CLI thread, reused for every dequeued file): " + h.desc
            hs.append(h)
    return hs
