"""C08 - saved rules behave identically once loaded (arena save/load round trip, address independence)."""
from vf.common import Harness

LEVEL = "model_checking"
TECHNIQUE = "CBMC bounded symbolic execution of arena.c save/load on a symbolic arena (contents, relocation slots and their targets symbolic; object addresses arbitrary)"
ASSUMPTIONS = [
    "arena: 2 buffers of 24 and 16 symbolic bytes, <= 2 relocatable slots holding NULL or a pointer to any (buffer, offset)",
    "H4: known finding (string external redefined then saved aborts); H5: AC transition-table growth keeps every written entry inside the saved size", "behavioural equality of scans on the loaded rules is argued from byte/pointer isomorphism (scan code reads only the arena), not solved",
    "yr_realloc hands out 32-byte objects (see harness/common/arena_env.h)",
]
LEVEL_TEXT = ("Bounded model checking of the real saver and loader: isomorphism of the loaded arena, bitwise preservation of the saved one and "
              "address independence of the file are decided for every content/reference assignment in the bound.")
LEVEL_NOTE = "; ".join(ASSUMPTIONS)

UF = {"vf_fill": 26, "vf_wr": 27, "vf_rd": 27, "memcmp": 26, "main": 26, "is_slot": 4, "build": 4}


def harnesses(ctx, tier):
    hs = [
        Harness(name="H1_roundtrip", src="c08/roundtrip.c", defines=["-DVF_MODE=1"], unwind=4, unwind_funcs=UF, timeout=900,
                desc="yr_arena_save_stream -> memory stream -> yr_arena_load_stream on a symbolic arena: isomorphism, original unchanged, address-independent file",
                bounds="2 buffers (24+16 symbolic bytes), <=2 slots, targets anywhere", functions=["yr_arena_save_stream", "yr_arena_load_stream", "yr_arena_ptr_to_ref", "yr_arena_ref_to_ptr", "yr_arena_make_ptr_relocatable"]),
        Harness(name="H3_write_error", src="c08/roundtrip.c", defines=["-DVF_MODE=3"], unwind=4, unwind_funcs=UF, timeout=900,
                desc="a write error at an arbitrary write call during yr_arena_save_stream: reported, and the arena being saved stays usable",
                bounds="failure at write call 0..8", functions=["yr_arena_save_stream"]),
        Harness(name="H4_define_string_then_save", src="c08/define_save.c", unwind=6, timeout=600,
                unwind_funcs={"strcmp": 4, "strlen": 4, "vf_wr": 100, "yr_arena_ptr_to_ref": 3, "memcpy": 100, "memcmp": 10},
                desc="yr_rules_define_string_variable (real) followed by yr_arena_save_stream (real) on an arena holding a string external",
                bounds="one string external, 1-character values", functions=["yr_rules_define_string_variable", "yr_arena_save_stream", "yr_arena_ptr_to_ref"]),
        Harness(name="H5_ac_table_growth", src="c05/ac_slot.c", unwind=6, timeout=600, unwind_funcs={"_yr_arena_allocate_memory": 12},
                desc="_yr_ac_find_suitable_transition_table_slot: for ANY slot the packing heuristic may return, the state's 257 transition entries lie inside the accounted (saved) table size",
                bounds="tables_size 257..600, slot 0..tables_size", functions=["_yr_ac_find_suitable_transition_table_slot", "yr_arena_allocate_zeroed_memory"], stubs=["yr_bitmask_find_non_colliding_offset -> any offset <= tables_size"]),
    ]
    return hs
