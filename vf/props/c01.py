"""C01 - text-string matches are exactly the documented occurrences."""
import os
from vf.common import Harness, dump_image

LEVEL = "model_checking"
TECHNIQUE = "CBMC bounded symbolic execution of scanner.c/scan.c on typed images of compiled rules (all buffers up to N bytes) and of atoms.c/base64.c extractors (all strings up to 6 bytes), against reference predicates written from the manual"
ASSUMPTIONS = []


def c_bytes(b):
    return "{" + ",".join(str(x) for x in b) + "}"


def yara_str(b):
    return '"' + "".join("\\x%02x" % x for x in b) + '"'


def text_template(name, sbytes, mods, N, extra_rule_text=""):
    """mods: dict ascii/wide/nocase/fullword/xor=(a,b)/private"""
    modtxt = []
    for k in ("ascii", "wide", "nocase", "fullword", "private"):
        if mods.get(k):
            modtxt.append(k)
    if mods.get("xor") is not None:
        a, b = mods["xor"]
        modtxt.append("xor(0x%02x-0x%02x)" % (a, b))
    rule = "rule r { strings: $a = %s %s condition: $a }\n%s" % (yara_str(sbytes), " ".join(modtxt), extra_rule_text)
    ascii_on = 1 if (mods.get("ascii") or not mods.get("wide")) else 0

    def gen(ctx, outdir):
        dump_image(ctx, outdir, "IMG_", rule, fname="img_img.h")
        with open(os.path.join(outdir, "tmpl.h"), "w") as f:
            f.write("/* template %s: %s */\n" % (name, rule.strip()))
            f.write("#define T_LEN %d\nstatic const uint8_t T_str[] = %s;\n" % (len(sbytes), c_bytes(sbytes)))
            f.write("#define T_ASCII %d\n#define T_WIDE %d\n#define T_NOCASE %d\n#define T_FULLWORD %d\n" % (
                ascii_on, 1 if mods.get("wide") else 0, 1 if mods.get("nocase") else 0, 1 if mods.get("fullword") else 0))
            if mods.get("xor") is not None:
                f.write("#define T_XOR 1\n#define T_XOR_MIN %d\n#define T_XOR_MAX %d\n" % mods["xor"])
            else:
                f.write("#define T_XOR 0\n")
            f.write("#define T_STRING_IDX 0\n")
    return Harness(
        name="H2_scan_" + name, src="c01/scan_text.c", defines=["-DVF_N=%d" % N], unwind=max(N, 2 * len(sbytes)) + 2,
        gen=gen, timeout=900, unwind_funcs={"vf_init_tables": 257, "spec_occ": (mods["xor"][1] - mods["xor"][0] + 3) if mods.get("xor") is not None else 4}, desc="real AC walk + literal verification + match list on the image of: " + rule.strip(),
        bounds="all buffers of length 0..%d (bytes and length symbolic); single block at base 0" % N,
        functions=["_yr_scanner_scan_mem_block", "yr_scan_verify_match", "_yr_scan_verify_literal_match", "_yr_scan_compare/_icompare/_wcompare/_wicompare/_xor_compare/_xor_wcompare",
                   "_yr_scan_match_callback", "_yr_scan_add_match_to_list"],
        stubs=["yr_notebook_alloc->malloc", "yr_get_configuration_uint32", "yr_lowercase table", "scan callback"])



# template family (program dimension, DESIGN 5.C01 layer 2).  Literal bytes are concrete (they are baked into
# the automaton by the real compiler); byte classes are chosen so that the atom picker is exercised:
# penalised bytes (00 20 FF CC) push the atom to the start/middle/end, short strings fit in an atom,
# wide atoms are truncated to 4 bytes, xor ranges turn atom bytes into penalised bytes.
QUICK = [
    ("abc", b"abc", {}),
    ("a1", b"a", {}),
    ("aa", b"aa", {}),                                  # overlapping occurrences
    ("abcde", b"abcde", {}),                            # longer than an atom: atom inside, backtrack > 0
    ("atom_end", b"\x00\x00abcd", {}),                # atom at the end
    ("atom_start", b"abcd\x20\x20", {}),              # atom at the start
    ("wide_ab", b"ab", {"wide": 1}),
    ("wide_abc", b"abc", {"wide": 1}),                  # wide form longer than an atom
    ("aw_ab", b"ab", {"ascii": 1, "wide": 1}),          # interleaved ascii/wide occurrences
    ("nocase_ab", b"aB", {"nocase": 1}),
    ("nocase_wide", b"a1", {"nocase": 1, "wide": 1}),
    ("fullword_ab", b"ab", {"fullword": 1}),
    ("fullword_wide", b"ab", {"fullword": 1, "wide": 1}),
    ("xor_ab", b"ab", {"xor": (0, 3)}),
    ("xor_wide", b"ab", {"xor": (1, 2), "wide": 1}),
    ("xor_aw", b"ab", {"xor": (0x20, 0x21), "ascii": 1, "wide": 1}),
    ("private_ab", b"ab", {"private": 1}),
]
THOROUGH_EXTRA = [
    ("ff", b"\xff\xff\xff", {}),
    ("abcdef", b"abcdef", {}),
    ("atom_mid", b"\x00ab1z\x00", {}),
    ("nocase_abcde", b"aBcDe", {"nocase": 1}),
    ("nocase_aw", b"ab", {"nocase": 1, "ascii": 1, "wide": 1}),
    ("fullword_aw", b"ab", {"fullword": 1, "ascii": 1, "wide": 1}),
    ("fullword_nocase", b"a1", {"fullword": 1, "nocase": 1}),
    ("xor_full", b"a", {"xor": (0, 255)}),
    ("xor_abcde", b"abcde", {"xor": (0x10, 0x12)}),
    ("xor_zero_atom", b"\x01\x01ab", {"xor": (1, 1)}),
    ("wide_abcd", b"abcd", {"wide": 1}),
    ("nul_inside", b"a\x00b", {"ascii": 1, "wide": 1}),
]


def atoms_h(name, mode, extra, unwind, L=6, timeout=600, desc=""):
    return Harness(name="H1_atoms_" + name, src="c01/h_atoms.c", defines=["-DVF_MODE=%d" % mode, "-DVF_L=%d" % L] + extra,
                   unwind=unwind, timeout=timeout, desc=desc,
                   bounds="string/atom bytes symbolic, length <= %d; quality function nondeterministic per call" % L,
                   functions=["yr_atoms_extract_from_string", "_yr_atoms_wide", "_yr_atoms_xor", "_yr_atoms_case_insensitive", "_yr_atoms_case_combinations"],
                   stubs=["config->get_atom_quality -> nondet 0..255"])


def harnesses(ctx, tier):
    N = 8 if tier == "thorough" else 6
    hs = []
    for nm, fl in (("ascii", "STRING_FLAGS_ASCII"), ("wide", "STRING_FLAGS_WIDE"), ("ascii_wide", "(STRING_FLAGS_ASCII|STRING_FLAGS_WIDE)")):
        hs.append(atoms_h("extract_" + nm, 1, ["-DVF_FLAGS=" + fl], 8, desc="yr_atoms_extract_from_string, flags " + nm))
    hs.append(atoms_h("stage_wide", 2, [], 6, desc="_yr_atoms_wide on one arbitrary atom"))
    hs.append(atoms_h("stage_xor", 3, [], 6, desc="_yr_atoms_xor on one arbitrary atom, arbitrary min, max-min<=3"))
    for cl in ((1, 2, 3, 4) if tier == "thorough" else (1, 2, 3)):
        hs.append(atoms_h("stage_nocase_len%d" % cl, 4, [], max(6, 2 ** cl + 2), L=cl, timeout=1800,
                          desc="_yr_atoms_case_insensitive on one arbitrary atom of length %d (all byte values)" % cl))
        hs[-1].flags = ["--object-bits", "10"]
    # layer 4: the automaton is shared by all strings of a rule set; the builder's decision to drop a failure link
    # (_yr_ac_transitions_subset) is what keeps occurrences of one string reachable while another one is being matched
    hs.append(Harness(name="H4_ac_transitions_subset", src="c05/ac_leaf.c", defines=["-DVF_MODE=1"], unwind=5, timeout=300,
                      desc="_yr_ac_transitions_subset on two arbitrary child lists: a needed failure link is never optimised away",
                      bounds="<= 3 children per state, all input bytes", functions=["_yr_ac_transitions_subset"]))
    for i in (0, 1, 2):
        hs.append(Harness(name="H3_base64_alignment%d" % i, src="c01/h_base64.c", defines=["-DVF_I=%d" % i, "-DVF_L=5"], unwind=8, timeout=600,
                          unwind_funcs={"main": 66, "memcpy": 12, "memset": 18},
                          desc="base64 modifier: the string searched for alignment %d is determined by the plain string alone (any alphabet, any surrounding bytes)" % i,
                          bounds="plain string 3..5 bytes, arbitrary 64-byte alphabet, arbitrary prefix/suffix bytes",
                          functions=["_yr_modified_base64_encode", "_yr_base64_get_base64_substring"]))
    T = QUICK + (THOROUGH_EXTRA if tier == "thorough" else [])
    for name, sb, mods in T:
        hs.append(text_template(name, list(sb), mods, N))
    return hs

ASSUMPTIONS = ["program dimension: a fixed family of text-string templates (literal bytes concrete, chosen to move the atom to start/middle/end, to fit in an atom, to truncate wide atoms, to interleave ascii/wide, xor ranges); input dimension (buffer bytes and length) symbolic",
               "buffers <= 6 bytes (8 thorough), single block at base 0; strings <= 6 bytes",
               "atom extraction checked for ANY quality function (nondeterministic per call)",
               "stubs: notebook -> malloc, configuration constants, lowercase table filled by the same loop as yr_initialize",
               "base64: the construction of the three searched strings is checked (necessity, any alphabet); the regexp built from them runs on the full regex VM and is outside; the automaton builder on symbolic atoms is outside (P19, 65 GB)"]
LEVEL_TEXT = ("Bounded model checking: for each template the solver covers every buffer up to the bound (offset 0, last byte, overlaps, fullword neighbours, "
              "interleaved ascii/wide, every xor key) against an occurrence predicate written from the manual; atom extraction is checked for every string up to 6 bytes.")
LEVEL_NOTE = "; ".join(ASSUMPTIONS)
