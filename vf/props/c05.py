"""C05 - a rule's result does not depend on what else is compiled with it."""
import os
from vf.common import Harness, dump_image

LEVEL = "model_checking"
TECHNIQUE = "CBMC 2-safety harness: the same symbolic buffer scanned by the real scanner on the image of {r} and on the image of {r}+companions (both compiled by the real compiler each run); plus leaf functions of the automaton builder"
ASSUMPTIONS = ["program dimension: a fixed family of (rule, companions) pairs chosen to force shared atoms, prefixes, suffixes, infixes, failure links to non-root states and appended match lists",
               "companion strings are given the same modifier flags as r's string (each in its own rule): a symbolic string pointer with differing flags makes the query intractable (probe in DESIGN section 4)",
               "the Aho-Corasick builder itself is not decidable symbolically here (P19: 65 GB); it is validated through its outputs on these pairs",
               "leaf harnesses: _yr_ac_transitions_subset, transition encoding, transition-table growth for any slot (bitmask packing replaced by its contract), yr_parser_emit_pushes_for_rules (3 rules, 2 namespaces), _yr_ac_optimize_failure_links (6 states, arbitrary bytes and depth-decreasing failure links)", "buffers <= 4 bytes (quick, 2 pairs) / 5 bytes (thorough, 6 pairs): one pair at 5 bytes costs ~700 s / 10 GB; verdict composition (exec.c) is C04/C11"]
LEVEL_TEXT = "Bounded model checking of match-list equality (2-safety) over all buffers in the bound for each template pair."
LEVEL_NOTE = "; ".join(ASSUMPTIONS)

PAIRS = [
    # name, r's rule text, companions before, companions after
    ("prefix", '$a = "abc"', [], ['$b = "ab"']),
    ("suffix", '$a = "abc"', ['$b = "bc"'], []),
    ("infix", '$a = "abcd"', [], ['$b = "bc"', '$c = "c"']),
    ("same_atom", '$a = "abcd"', ['$b = "abcd"'], []),
    ("failure_link", '$a = "aab"', ['$b = "ab"'], ['$c = "b"']),
    ("overlap", '$a = "aba"', [], ['$b = "bab"']),
    # the failure link from "abc" (child 'h') to "bc" (child 'i') must survive the subset optimisation
    ("needed_failure_link", '$a = "bci"', ['$b = "abch"'], []),
]


def pair_h(name, rstr, before, after, N):
    ra = "rule r { strings: %s condition: $a }\n" % rstr
    rb = ""
    for i, c in enumerate(before):
        rb += "rule c%d { strings: %s condition: %s }\n" % (i, c, c.split()[0])
    rb += ra
    for i, c in enumerate(after):
        rb += "rule d%d { strings: %s condition: %s }\n" % (i, c, c.split()[0])
    idx_b = len(before)

    def gen(ctx, outdir):
        dump_image(ctx, outdir, "A_", ra, fname="img_a.h")
        dump_image(ctx, outdir, "B_", rb, fname="img_b.h")
        with open(os.path.join(outdir, "tmpl.h"), "w") as f:
            f.write("#define T_A_IDX 0\n#define T_B_IDX %d\n#define T_A_RULE 0\n#define T_B_RULE %d\n" % (idx_b, idx_b))
    return Harness(name="H1_pair_" + name, src="c05/twoimg.c", defines=["-DVF_N=%d" % N], gen=gen, unwind=N + 3, timeout=3000, mem_gb=20,
                   # the chained-string code is unreachable for these literal strings, but symex cannot see that through the
                   # symbolic string pointer of a multi-string image: its recursion/loops are bounded at 1 and the unwinding
                   # assertions (checked) prove they are never entered
                   unwind_funcs={"vf_init_tables": 257, "rec:_yr_scan_update_match_chain_length": 1, "_yr_scan_update_match_chain_length": 1,
                                 "_yr_scan_verify_chained_string_match": 1},
                   desc="r alone vs r with companions: " + rb.replace("\n", " "), bounds="all buffers <= %d bytes" % N,
                   functions=["_yr_scanner_scan_mem_block", "yr_scan_verify_match", "_yr_scan_add_match_to_list"])


def harnesses(ctx, tier):
    N = 4   # one 2-string pair at 5 bytes costs ~700 s / 10 GB; 3-string sets do not finish in 900 s at 4 bytes
    pairs = [p for p in PAIRS if p[0] in ("prefix", "suffix", "same_atom", "needed_failure_link")] if tier == "thorough" else [p for p in PAIRS if p[0] in ("prefix", "needed_failure_link")]   # quick: 2 pairs (each ~400 s / 7 GB alone; `vp check` stops a check at 900 s); suffix: thorough
    hs = [pair_h(*p, N=N) for p in pairs]
    hs.append(Harness(name="H3_transitions_subset", src="c05/ac_leaf.c", defines=["-DVF_MODE=1"], unwind=5, timeout=300,
                      desc="_yr_ac_transitions_subset on two arbitrary child lists (<= 3 children, any bytes)", bounds="<= 3 children per state, all input bytes",
                      functions=["_yr_ac_transitions_subset"]))
    hs.append(Harness(name="H4_transition_encoding", src="c05/ac_leaf.c", defines=["-DVF_MODE=2"], unwind=3, timeout=300,
                      desc="YR_AC_MAKE_TRANSITION / NEXT_STATE / INVALID_TRANSITION are inverse", bounds="state < 2^23, input code 0..256",
                      functions=["YR_AC_MAKE_TRANSITION", "YR_AC_NEXT_STATE", "YR_AC_INVALID_TRANSITION"]))
    hs.append(Harness(name="H6_rule_set_wildcard_namespace", src="c05/rule_sets.c", unwind=5, timeout=600, flags=["--object-bits", "10"],
                      unwind_funcs={"strcmp": 4, "strlen": 4, "strncmp": 4, "hash": 4, "yr_hash": 4, "_yr_hash_table_lookup": 5, "yr_hash_table_create": 6, "main": 5, "strlcpy": 4, "_yr_arena_allocate_memory": 3},
                      desc="yr_parser_emit_pushes_for_rules: a wildcard rule set only contains rules of the namespace being compiled",
                      bounds="3 rules, 2 namespaces, identifiers 1..2 chars over {x,y}, any prefix", functions=["yr_parser_emit_pushes_for_rules", "yr_hash_table_lookup_uint32"],
                      stubs=["yyget_extra"]))
    hs.append(Harness(name="H7_failure_link_optimisation", src="c05/ac_optimize.c", unwind=8, timeout=600,
                      desc="_yr_ac_optimize_failure_links on a 6-state automaton (three overlapping strings) with arbitrary input bytes and arbitrary depth-decreasing failure links: the goto function is unchanged",
                      bounds="6 states (root, depths 1,1,2,2,3); all input bytes; all failure links to shallower states; arbitrary (state, byte)",
                      functions=["_yr_ac_optimize_failure_links", "_yr_ac_transitions_subset", "_yr_ac_queue_push", "_yr_ac_queue_pop"]))
    hs.append(Harness(name="H5_ac_table_growth", src="c05/ac_slot.c", unwind=6, timeout=600, unwind_funcs={"_yr_arena_allocate_memory": 12},
                desc="_yr_ac_find_suitable_transition_table_slot: for ANY slot the packing heuristic may return, the state's 257 transition entries lie inside the accounted (saved) table size",
                bounds="tables_size 257..600, slot 0..tables_size", functions=["_yr_ac_find_suitable_transition_table_slot", "yr_arena_allocate_zeroed_memory"], stubs=["yr_bitmask_find_non_colliding_offset -> any offset <= tables_size"]))
    return hs
