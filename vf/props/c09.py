"""C09 - concurrent scans sharing one rule set are race-free and deterministic (reduction to frame conditions)."""
from vf.common import Harness, dump_image

LEVEL = "other"
TECHNIQUE = "CBMC frame-condition harness on the real whole scan: every shared object (compiled-rules image, YR_RULES, global tables, another scanner) is bitwise unchanged by a scan - after it and, for the strings/rules tables and YR_RULES, at every callback inside it (matches limit scaled to 3 so that muting happens) - for all inputs in the bound; interleavings are not explored"
ASSUMPTIONS = ["REDUCTION, not a schedule exploration: scans that write only their own scanner cannot race on shared state; CBMC cannot execute real threads over this code (pointer-typed shared state, DESIGN P15)",
               "YR_TRYCATCH use count: only LIFO overlaps at critical-section granularity (mutex atomicity assumed); TLS, memory-mapped files and OpenSSL-internal state are outside",
               "data <= 4 bytes; rule evaluated unconditionally"]
LEVEL_TEXT = ("Level 'other': a solver-decided frame condition (no write outside the scan's own scanner, for every input in the bound) from which "
              "schedule-independence follows by argument; no thread interleaving is explored.")
LEVEL_NOTE = "; ".join(ASSUMPTIONS)
EXPLANATION = ("Frame conditions decided by CBMC on the real scan code; the step from 'no shared write' to 'race-free under every interleaving' is an argument, "
               "and thread creation, the trycatch handler count and mmap are outside the claim.")


def harnesses(ctx, tier):
    N = 5 if tier == "thorough" else 4
    hs = []
    for name, rule in (("text", 'rule r { strings: $a = "ab" condition: #a == 1 }\n'),
                       ("text_at", 'rule r { strings: $a = "ab" wide ascii condition: $a at 1 }\n')):
        def gen(ctx_, outdir, rule=rule):
            dump_image(ctx_, outdir, "IMG_", rule, fname="img_img.h")
        defs = ["-DVF_N=%d" % N] + (["-DVF_WITH_RE=1"] if name == "hexfast" else [])
        hs.append(Harness(name="H1_frame_" + name, src="c09/frame.c", defines=defs, gen=gen, unwind=N + 3, timeout=900,
                          unwind_funcs={"vf_init_tables": 257, "yr_execute_code": 16, "yr_arena_ptr_to_ref": 4},
                          flags=["--object-bits", "10"],
                          desc="whole scan leaves the compiled rules, global tables and another scanner bitwise unchanged; rule: " + rule.strip(),
                          bounds="data <= %d bytes, fast mode on/off" % N,
                          functions=["yr_scanner_scan_mem_blocks", "_yr_scanner_scan_mem_block", "yr_scan_verify_match", "yr_execute_code"]))
    SCALE = ["-DYR_MAX_STRING_MATCHES=3", "-DYR_SLOW_STRING_MATCHES=100"]

    def gen_d(ctx_, outdir):
        dump_image(ctx_, outdir, "IMG_", 'rule r { strings: $a = "a" condition: $a }\n', scale_defs=SCALE, fname="img_img.h")
    hs.append(Harness(name="H2_frame_during_scan", src="c09/frame.c", defines=["-DVF_N=%d" % (N + 1), "-DVF_DURING=1"] + SCALE, gen=gen_d, unwind=N + 4, timeout=1200, mem_gb=24,
                      unwind_funcs={"vf_init_tables": 257, "yr_execute_code": 16, "yr_arena_ptr_to_ref": 4}, flags=["--object-bits", "10"],
                      desc="frame condition checked from inside the scan (every callback message, incl. the too-many-matches warning answered CONTINUE with the limit scaled to 3) and after it",
                      bounds="data <= %d bytes; matches-per-string limit scaled to 3" % (N + 1),
                      functions=["yr_scanner_scan_mem_blocks", "_yr_scanner_scan_mem_block", "yr_scan_verify_match", "_yr_scanner_clean_matches", "yr_execute_code"]))
    hs.append(Harness(name="H4_trycatch_use_count", src="c09/trycatch.c", unwind=4, timeout=300,
                      desc="YR_TRYCATCH signal-handler use count under nested (LIFO) overlaps of up to three scans, each protected or not",
                      bounds="3 scans, LIFO overlaps, every on/off combination", functions=["YR_TRYCATCH (exception.h)"],
                      stubs=["pthread mutex", "sigaction recorder", "sigsetjmp -> 0", "TLS"]))
    return hs
