"""C02 - hex-string matches are exactly the documented occurrences (fast matcher path)."""
import os, re
from vf.common import Harness, dump_image

LEVEL = "model_checking"
TECHNIQUE = "CBMC bounded symbolic execution of scan.c _yr_scan_verify_chained_string_match (re-joining of split patterns, all delivery sequences in the bound) and of re.c yr_re_fast_exec on the real code emitted by the real compiler for hex templates (all data up to N bytes), against a token-level reference matcher; unwind bounds derived from the template"
ASSUMPTIONS = ["program dimension: hex templates without alternatives (bytes, ??, ?X, X?, ~XX, ~?X, [n], [n-m]); patterns with alternatives run on the full regex VM (yr_re_exec) whose symbolic execution is intractable (DESIGN P7) - outside",
               "forward matching from the pattern start (atom at the start of the template)",
               "split patterns: the re-joining step (H3) is checked on a 3-piece chain for every sequence of 4 piece occurrences and every sequence of 5 that can contain a complete chain (thorough: every sequence of 5) delivered in scanner order (ascending end position, every piece being its own atom); the splitting itself (yr_re_ast_split_at_chaining_point) and the search for each piece through the regex VM are outside",
               "data <= 6 bytes"]
LEVEL_TEXT = "Bounded model checking of the fast matcher against the documented hex semantics for every data buffer in the bound, per template."
LEVEL_NOTE = "; ".join(ASSUMPTIONS)

TEMPLATES = [
    ("wild", "61 ?? 63"),
    ("nibbles", "61 6? ?3"),
    ("not", "61 ~62 63"),
    ("notnib", "61 ~?2 63"),
    ("jump1", "61 62 [1] 63"),
    ("jump12", "61 62 [1-2] 63"),
    ("jump01", "61 62 [0-1] 63 64"),
    ("twojumps", "61 [1-2] 62 [0-1] 63"),
]
THOROUGH = [   # (jumps wider than 2 positions or combined with a negation do not finish in 900 s)
    ("wild2", "61 62 ?? ?? 64"),
    ("notwild", "61 62 ~63 ?? 64"),
    ("jump2", "61 62 [2] 63"),
]


def parse_hex(p):
    toks = []
    for t in p.split():
        if t.startswith("["):
            m = re.match(r"\[(\d+)(?:-(\d+))?\]", t)
            lo = int(m.group(1))
            hi = int(m.group(2)) if m.group(2) else lo
            toks.append((2, 0, 0, lo, hi))
            continue
        neg = t.startswith("~")
        if neg:
            t = t[1:]
        hi_n, lo_n = t[0], t[1]
        mask = (0 if hi_n == "?" else 0xF0) | (0 if lo_n == "?" else 0x0F)
        val = ((0 if hi_n == "?" else int(hi_n, 16)) << 4) | (0 if lo_n == "?" else int(lo_n, 16))
        toks.append((1 if neg else 0, val, mask, 0, 0))
    return toks


def fast_h(name, pat, N):
    rule = "rule r { strings: $a = { %s } condition: $a }\n" % pat
    toks = parse_hex(pat)
    maxjump = max([t[4] - t[3] for t in toks if t[0] == 2] + [0])

    def gen(ctx, outdir):
        out = dump_image(ctx, outdir, "IMG_", rule, fname="img_img.h")
        m = re.search(r"/\* ACMATCH 0 string=0 backtrack=(\d+) fwd=(-?\d+) bwd=(-?\d+)", out)
        if not m or int(m.group(2)) != 0:
            raise RuntimeError("template %s: atom not at pattern start (fwd=%s)" % (name, m and m.group(2)))
        with open(os.path.join(outdir, "tmpl.h"), "w") as f:
            f.write("/* %s */\n#define T_FWD_OFF %s\n#define T_NTOK %d\n" % (rule.strip(), m.group(2), len(toks)))
            f.write("static const sp_tok T_tok[] = {%s};\n" % ", ".join("{%d,%d,%d,%d,%d}" % t for t in toks))
    rounds = len(toks) + 3
    return Harness(name="H1_fast_" + name, src="c02/fast.c", defines=["-DVF_N=%d" % N], gen=gen, unwind=max(N + 2, rounds), timeout=900,
                   unwind_funcs={"yr_re_fast_exec": max(rounds, maxjump + 3, N + 2), "sp_hex_lengths": max(N + 2, len(toks) + 1, 32),
                                 "_yr_re_fast_exec_destroy_position_list": N + 3},
                   flags=["--object-bits", "10"],
                   desc="yr_re_fast_exec forwards on the compiled code of { %s } vs token-level reference" % pat,
                   bounds="data <= %d bytes, start position and length symbolic" % N,
                   functions=["yr_re_fast_exec", "_yr_re_fast_exec_position_create", "_yr_re_fast_exec_destroy_position_list"])


def harnesses(ctx, tier):
    N = 6      # 7 bytes: the jump templates run out of memory at 12 GB
    hs = [fast_h(n, p, N) for n, p in TEMPLATES]
    def chain_h(K, seq):
        digits = [(seq // 3 ** k) % 3 for k in range(K)]
        return Harness(name="H3_chain_rejoin_k%d_%s" % (K, "".join(str(d + 1) for d in digits)), src="c02/chain.c",
                       defines=["-DVF_K=%d" % K, "-DVF_SEQ=%d" % seq], unwind=14, timeout=900 if K > 4 else 300, mem_gb=8,
                       unwind_funcs={"rec:_yr_scan_update_match_chain_length": 4},
                       desc="re-joining of a split pattern S1<-S2<-S3: _yr_scan_verify_chained_string_match fed occurrences of pieces %s (in scanner order, any offsets/lengths/gap bounds) vs the documented occurrences of the whole pattern (shortest completion)" % ",".join("S%d" % (d + 1) for d in digits),
                       bounds="%d deliveries, 3 pieces of 1-2 bytes, gap bounds 0..5, offsets < 10" % K,
                       functions=["_yr_scan_verify_chained_string_match", "_yr_scan_update_match_chain_length", "_yr_scan_add_match_to_list", "_yr_scan_remove_match_from_list"],
                       stubs=["yr_notebook_alloc -> malloc", "yr_get_configuration_uint32 -> max match data 8"])

    K2 = 7 if tier == "quick" else 8
    hs.append(Harness(name="H5_atoms_from_hex_ast", src="c02/atoms_re.c", defines=["-DVF_K=%d" % K2], unwind=K2 + 4, timeout=900,
                      desc="_yr_atoms_extract_from_re on a sequence of %d byte tokens (literal / masked / ??, all values) with any quality function: the chosen atom's bytes are those of the consecutive tokens its re_nodes point to" % K2,
                      bounds="%d tokens; quality nondeterministic per call" % K2,
                      functions=["_yr_atoms_extract_from_re", "_yr_atoms_trim", "_yr_atoms_tree_node_create", "_yr_atoms_tree_node_append"], stubs=["config->get_atom_quality -> nondet", "yr_stack_* -> typed array stack"]))

    def has_chain(K, seq):
        i = 0
        for k in range(K):
            if (seq // 3 ** k) % 3 == i:
                i += 1
        return i >= 3
    hs += [chain_h(4, q) for q in range(81)]
    hs += [chain_h(5, q) for q in range(243) if tier == "thorough" or has_chain(5, q)]
    if tier == "thorough":
        for n, p in THOROUGH:
            h = fast_h(n, p, 6)
            hs.append(h)
    return hs
