"""C04 - condition semantics: the real VM (exec.c) one opcode at a time, all operand values."""
from vf.common import Harness

LEVEL = "model_checking"
TECHNIQUE = "CBMC bounded symbolic execution of libyara/exec.c (yr_execute_code) per opcode, all 64-bit operand values, against a reference semantics written from the manual"
ASSUMPTIONS = [
    "program dimension: one opcode per query in the exact byte layout yr_parser_emit* produces (arithmetic/bitwise/compare/boolean opcodes, the 9 string-query opcodes on arbitrary sorted match lists of <= 3 matches, the 12 intN readers on 2-block layouts, ITER_CONDITION/ITER_END, the string operators of sizedstr.c on strings <= 3 bytes); composition of instructions is argued (DESIGN 5.C04), not solved",
    "a defined result equal to the sentinel 0xFFFABADAFABADAFF is indistinguishable from undefined by design and is excluded",
    "yr_get_configuration_uint32 -> constant stack size; yr_modules_unload_all -> counting stub; clock stub",
    "operator precedence/associativity (LALR tables) is outside this technique",
]
EXPLANATION = ""

INT_BIN = ["OP_AND", "OP_OR", "OP_INT_ADD", "OP_INT_SUB", "OP_INT_MUL", "OP_INT_DIV", "OP_MOD",
           "OP_BITWISE_AND", "OP_BITWISE_OR", "OP_BITWISE_XOR", "OP_SHL", "OP_SHR",
           "OP_INT_EQ", "OP_INT_NEQ", "OP_INT_LT", "OP_INT_GT", "OP_INT_LE", "OP_INT_GE"]
INT_UN = ["OP_NOT", "OP_BITWISE_NOT", "OP_INT_MINUS", "OP_DEFINED"]
DBL_ARITH = ["OP_DBL_ADD", "OP_DBL_SUB", "OP_DBL_MUL", "OP_DBL_DIV"]
DBL_CMP = ["OP_DBL_LT", "OP_DBL_GT", "OP_DBL_LE", "OP_DBL_GE"]

EXEC_FUNCS = ["yr_execute_code", "jmp_if", "yr_arena_create", "yr_arena_release", "yr_notebook_create", "yr_notebook_destroy"]
EXEC_STUBS = ["yr_get_configuration_uint32", "yr_modules_unload_all", "yr_stopwatch_elapsed_ns"]


def op_h(op, arity, kind, solver="cadical", timeout=300, tier="quick"):
    return Harness(
        name="H1_" + op, src="c04/op.c",
        defines=["-DVF_OP=" + op, "-DVF_ARITY=%d" % arity, "-DVF_KIND=%d" % kind],
        unwind=10, timeout=timeout, solver=solver,
        desc="yr_execute_code on INIT_RULE;PUSH a;%sOP %s;observer;MATCH_RULE;HALT vs spec/ops.h" % ("PUSH b;" if arity == 2 else "", op),
        bounds="all 2^64 values of each operand and of the expected value; 2 observers (value, definedness)",
        functions=EXEC_FUNCS, stubs=EXEC_STUBS)


def harnesses(ctx, tier):
    hs = []
    for op in INT_BIN:
        slow = op in ("OP_INT_MUL", "OP_INT_DIV", "OP_MOD")
        # symbolic x symbolic 64-bit mul/div: SAT bit-blasting does not finish in 900 s; the SMT back end
        # decides it at the term level in ~3 s (probe recorded in DESIGN section 4)
        hs.append(op_h(op, 2, 0, solver="z3" if slow else "cadical"))
    for op in INT_UN:
        hs.append(op_h(op, 1, 0))
    for op in DBL_CMP:
        hs.append(op_h(op, 2, 2))
    for op in DBL_ARITH[:2]:
        hs.append(op_h(op, 2, 1, timeout=600))
    if tier == "thorough":
        for op in DBL_ARITH[2:3]:      # OP_DBL_MUL (OP_DBL_DIV: no verdict in 3000 s)
            hs.append(op_h(op, 2, 1, timeout=3000))
    Q = {1: "$a", 2: "$a at k", 3: "$a in (a..b)", 4: "#a", 5: "#a in (a..b)", 6: "@a[i]", 7: "!a[i]", 8: "q of ($a,$b)", 9: "p% of ($a,$b)"}
    for q, what in Q.items():
        hs.append(Harness(name="H2_query_%d" % q, src="c04/strq.c", defines=["-DVF_Q=%d" % q], unwind=12, timeout=600,
                          unwind_funcs={"yr_arena_ptr_to_ref": 4, "main": 5},
                          desc="string-match query `%s` through the real VM on an arbitrary sorted match list vs set semantics" % what,
                          bounds="<= 3 matches (offsets < 2^47, ascending) for $a, <= 1 for $b; all 64-bit operands incl. undefined",
                          functions=EXEC_FUNCS, stubs=EXEC_STUBS))
    for sz, ty in ((1, "int8_t"), (2, "int16_t"), (4, "int32_t")):
        for signed in (1, 0):
            for be in (0, 1):
                t = ty if signed else "u" + ty
                fn = "read_%s_%s" % (t, "big_endian" if be else "little_endian")
                hs.append(Harness(name="H3_" + fn, src="c04/readers.c", defines=["-DVF_READER=" + fn, "-DVF_SIZE=%d" % sz, "-DVF_SIGNED=%d" % signed, "-DVF_BE=%d" % be],
                                  unwind=6, timeout=300, desc="%s on a symbolic 2-block layout" % fn,
                                  bounds="2 blocks x <= 4 bytes, base 0..3, gap 0..2, offset any size_t", functions=[fn]))
    for m, what in ((1, "OP_ITER_CONDITION"), (2, "OP_ITER_END")):
        hs.append(Harness(name="H4_" + what, src="c04/iter.c", defines=["-DVF_MODE=%d" % m], unwind=12, timeout=300, unwind_funcs={"yr_arena_ptr_to_ref": 3},
                          desc="%s through the real VM vs the documented quantifier semantics" % what,
                          bounds="all quantifier values incl. undefined (all) and 0 (none); counters < 2^40", functions=EXEC_FUNCS, stubs=EXEC_STUBS))
    hs.append(Harness(name="H5_string_operators", src="c04/strops.c", unwind=6, timeout=600, unwind_funcs={"main": 258},
                      desc="contains/icontains/startswith/istartswith/endswith/iendswith/iequals and string comparison (sizedstr.c) on two arbitrary sized strings",
                      bounds="both strings 0..3 bytes, all byte values incl. NUL", functions=["ss_contains", "ss_icontains", "ss_startswith", "ss_istartswith", "ss_endswith", "ss_iendswith", "ss_compare", "ss_icompare"],
                      stubs=["memmem contract model", "yr_lowercase table"]))
    return hs




LEVEL_TEXT = ("Bounded model checking of the real interpreter: for each opcode the solver covers every 64-bit operand value "
              "(and every expected value) against a reference semantics written from the manual; this is the right level because the "
              "interesting inputs (sentinel, INT64_MIN, shift counts at 63/64, division guards) are single points of a 2^128 space.")
LEVEL_NOTE = "; ".join(ASSUMPTIONS)
