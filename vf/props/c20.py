"""C20 - external variables are typed, scoped and isolated."""
import os, re
from vf.common import Harness, REPO

LEVEL = "model_checking"
TECHNIQUE = "CBMC bounded symbolic execution of rules.c/scanner.c/object.c/hash.c define & lookup functions and the VM's OBJ_LOAD/OBJ_VALUE over a symbolic operation sequence, against a 3-level map model"
ASSUMPTIONS = ["2 externals whose identifiers are prefix-related (\"ab\", \"a\"); definitions use ANY identifier of length 0..3 over {a,b} (empty, prefixes, extensions, unknown), types integer/boolean/float symbolic; strings handled in H4",
               "operation order skeleton fixed (define, create, define, create, scanner-define, define, read all), all arguments symbolic",
               "integer and boolean are mutually compatible at scanner level (both are integer objects)", "NaN float values excluded (read back as undefined by design)"]
LEVEL_TEXT = "Bounded model checking of the real define/create/lookup code against a three-level environment model, all identifiers/types/values symbolic."
LEVEL_NOTE = "; ".join(ASSUMPTIONS)


def gen_types(ctx_, outdir):
    # CBMC models a union through its FIRST member: with `int64_t i` first, a pointer stored in YR_VALUE.ss comes
    # back as an integer without provenance ("invalid object").  Member order does not change a union's layout in
    # C, so the harness compiles against a copy of types.h (regenerated from /repo on every run) in which the
    # SIZED_STRING* member is declared first.
    src = os.path.join(REPO, "libyara", "include", "yara", "types.h")
    t = open(src, errors="replace").read()
    m = re.search(r"union YR_VALUE\s*\{(.*?)\};", t, re.S)
    if not m or "SIZED_STRING* ss;" not in m.group(1):
        raise RuntimeError("union YR_VALUE not found in types.h")
    body = m.group(1).replace("  SIZED_STRING* ss;\n", "")
    t2 = t[:m.start(1)] + "\n  SIZED_STRING* ss; /* moved first by vf/props/c20.py, see there */" + body + t[m.end(1):]
    os.makedirs(os.path.join(outdir, "yara"), exist_ok=True)
    open(os.path.join(outdir, "yara", "types.h"), "w").write(t2)


def harnesses(ctx, tier):
    hs = []
    names = {1: "float", 2: "integer", 3: "boolean"}
    for ta in (1, 2, 3):
        for tb in (1, 2, 3):
            hs.append(Harness(name="H2_three_level_env_%s_%s" % (names[ta], names[tb]), src="c20/env3.c", defines=["-DVF_TA=%d" % ta, "-DVF_TB=%d" % tb],
                    unwind=10, timeout=600, flags=["--object-bits", "10"],
                    unwind_funcs={"strcmp": 5, "strlen": 5, "sym_def": 5, "yr_hash": 3, "hash": 3, "main": 4, "yr_arena_ptr_to_ref": 3, "yr_hash_table_create": 66, "yr_hash_table_clean": 66, "yr_hash_table_destroy": 66},
                    desc="rules-define / scanner-create / scanner-define sequence with symbolic ids, types, values (declared types %s,%s); values read back on both scanners" % (names[ta], names[tb]),
                    bounds="2 variables (+1 unknown id), 2 scanners, 4 define operations", functions=["yr_rules_define_*_variable", "yr_scanner_create", "yr_scanner_define_*_variable", "yr_object_from_external_variable", "yr_object_set_integer/float", "yr_hash_table_add/lookup"]))
    hs.append(Harness(name="H1_compiler_define_duplicate", src="c20/compiler_define.c", unwind=6, timeout=2400, mem_gb=30, flags=["--object-bits", "10"],
                      unwind_funcs={"strcmp": 4, "strlen": 4, "yr_hash": 12, "hash": 12, "yr_hash_table_create": 6, "_yr_hash_table_lookup": 4, "memcmp": 12,
                                    "_yr_arena_allocate_memory": 6, "rec:yr_object_destroy": 1, "yr_object_destroy": 2, "strcpy": 4, "memcpy": 12, "_yr_arena_make_ptr_relocatable": 3},
                      desc="compile-time definitions: a duplicate identifier is rejected and leaves the externals table unchanged; a new identifier adds one entry",
                      bounds="second definition: identifier a|b, integer/boolean/float, any value",
                      functions=["yr_compiler_define_integer/boolean/float_variable", "_yr_compiler_define_variable", "_yr_compiler_store_data", "yr_arena_allocate_struct"]))
    hs.append(Harness(name="H3_value_setters", src="c20/setters.c", unwind=10, timeout=600, leak_check=True, gen=gen_types, includes=["-I@OUTDIR@", "-I" + os.path.join(REPO, "libyara", "include", "yara")],
                      desc="yr_object_set_string / _integer / _float (the setters behind rules- and scanner-level definitions): after a set the object holds exactly the new value, for any previous value",
                      bounds="strings of 0..3 bytes over {a,b} (previous value: none or any such string; new value: NULL or any such string); all 64-bit integers / doubles; the allocation may fail",
                      functions=["yr_object_set_string", "yr_object_set_integer", "yr_object_set_float"], stubs=["allocator: mem_fail.h"]))
    return hs
