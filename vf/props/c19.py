"""C19 - compiled rules do not depend on how internal storage grew."""
from vf.common import Harness

LEVEL = "model_checking"
TECHNIQUE = "CBMC bounded symbolic execution of arena.c growth/fix-up as an inductive step (arbitrary small arena, always-moving realloc) and of compile-time units under capacity 1"
ASSUMPTIONS = [
    "yr_realloc always moves (malloc+copy+free) and hands out 64-byte objects; the arena is kept below that",
    "initial capacity 1..16, existing region 16..24 bytes, growth 1..16 bytes: every position of a growth relative to the data", "H2: one compile-time unit (yr_ac_add_string) with the match pool at capacity 1; parser.c/grammar.y units that hold raw pointers across allocations are not covered",
]
LEVEL_TEXT = ("One inductive step of the growth mechanism from an arbitrary small arena state covers histories of any length; "
              "stale raw pointers in compile-time units are caught as use-after-free because every allocation relocates.")
LEVEL_NOTE = "; ".join(ASSUMPTIONS)


def harnesses(ctx, tier):
    return [Harness(name="H1_growth_step", src="c19/growth.c", unwind=26, timeout=900,
                    unwind_funcs={"_yr_arena_allocate_memory": 8, "yr_arena_ptr_to_ref": 4, "yr_arena_release": 4},
                    desc="yr_arena_allocate_memory/zeroed/write_data growth step with always-moving realloc, registered pointers inside and outside the moved buffer",
                    bounds="capacity 1..16, region 16..24 B, growth 1..16 B, 2 buffers, 2 optional relocs",
                    functions=["_yr_arena_allocate_memory", "yr_arena_allocate_memory", "yr_arena_allocate_zeroed_memory", "yr_arena_write_data", "yr_arena_make_ptr_relocatable", "yr_arena_get_ptr"]),
            Harness(name="H2_ac_add_string_relocating", src="c19/ac_add.c", unwind=6, timeout=600, unwind_funcs={"_yr_arena_allocate_memory": 16, "_yr_arena_make_ptr_relocatable": 6, "yr_arena_ptr_to_ref": 14, "memcmp": 10},
                    desc="yr_ac_add_string for two strings sharing an atom, match pool capacity 1, always-moving realloc: match list resolved after growth",
                    bounds="atom 1..2 symbolic bytes, 2 strings", functions=["yr_ac_add_string", "_yr_ac_state_create", "yr_arena_allocate_struct"])]
