"""C07 - compiling arbitrary text never crashes and every failure is diagnosed (component level)."""
import os, re
from vf.common import Harness, REPO
from vf.props import c12
from vf import stage_src

LEVEL = "model_checking"
TECHNIQUE = "CBMC bounded symbolic execution of parser components cut mechanically out of the generated parsers / lexer sources: bison fold actions with arbitrary semantic values (no undefined behaviour, every failure reported once), re_lexer escape handling on an arbitrary character stream, loop-variable ownership across two consecutive loops (extracted for_variables / for_iteration actions + the prologue's loop_vars_cleanup)"
ASSUMPTIONS = ["no whole-parser run: LALR/flex automata on symbolic text are intractable (DESIGN P10); the claim is per action / per lexer helper with arbitrary semantic values or input characters",
               "token-level behaviour, error-recovery productions, include handling and termination for whole inputs are outside"]
LEVEL_TEXT = "Bounded model checking per grammar action and lexer helper: no action can trap or leave a failure unreported for any semantic values."
LEVEL_NOTE = "; ".join(ASSUMPTIONS)


def extract_c_function(text, name):
    """definition (not prototype) of function `name` from a flex .l user-code section"""
    for m in re.finditer(r"^int %s\(" % name, text, re.M):
        i = text.index(")", m.start())
        j = i + 1
        while text[j] in " \n\t":
            j += 1
        if text[j] != "{":
            continue
        depth, k = 0, j
        while True:
            if text[k] == "{":
                depth += 1
            elif text[k] == "}":
                depth -= 1
                if depth == 0:
                    break
            k += 1
        return text[m.start():k + 1]
    raise RuntimeError("function %s not found" % name)


def harnesses(ctx, tier):
    hs = []
    # H1: every fold action, any operands: no UB (overflow / division / shift checks), errors reported exactly once
    for f in c12.FOLDS:
        h = c12.fold_h(*f, variant="c")
        h.name = "H1_action_" + f[0]
        h.desc = "C07 view of the fold action `%s`: no trap / undefined behaviour for any operand values, every failure reported exactly once with a code" % f[1]
        if f[0] == "mul":
            h.defines.append("-DVF_NO_REJECT_EXACTNESS=1")
            h.no_checks = ["signed-overflow"]
        hs.append(h)

    def gen(ctx_, outdir):
        t = open(os.path.join(REPO, "libyara", "re_lexer.l"), errors="replace").read()
        with open(os.path.join(outdir, "lexfuncs.h"), "w") as f:
            f.write("/* cut from libyara/re_lexer.l by vf/props/c07.py */\n")
            f.write(extract_c_function(t, "escaped_char_value") + "\n")
            f.write(extract_c_function(t, "read_escaped_char") + "\n")
    hs.append(Harness(name="H4_re_lexer_escapes", src="c07/escapes.c", gen=gen, unwind=6, timeout=300,
                      desc="re_lexer.l read_escaped_char/escaped_char_value on an arbitrary <=3-character stream",
                      bounds="all character streams of length 0..3 after the backslash, strict and lenient mode",
                      functions=["read_escaped_char", "escaped_char_value"], stubs=["RE_YY_INPUT -> symbolic stream", "sscanf(%x) contract stub"]))
    for variant in ("c", "regen"):
        def gen_lv(ctx_, outdir, variant=variant):
            src = stage_src.regenerate(outdir, "grammar") if variant == "regen" else os.path.join(REPO, "libyara", "grammar.c")
            stage_src.write_actions_header(os.path.join(outdir, "actions.h"), src,
                                           {"ACT_for_variables_first": 'for_variables: "identifier"',
                                            "ACT_for_variables_next": 'for_variables: for_variables \',\' "identifier"',
                                            "ACT_for_iteration_of": 'for_iteration: "<of>" string_iterator'})
            t = open(os.path.join(REPO, "libyara", "compiler.c"), errors="replace").read()
            with open(os.path.join(outdir, "vf_get_var_frame.h"), "w") as f:
                f.write("/* cut from libyara/compiler.c by vf/props/c07.py */\n" + extract_c_function(t, "_yr_compiler_get_var_frame") + "\n")
        hs.append(Harness(name="H3_loop_variables_" + variant, src="c07/loopvars.c", gen=gen_lv, unwind=6, timeout=600,
                          desc="loop-variable ownership over two consecutive loops at one depth (named-variable loop, then string-set loop): no use of freed names, no double free, no leak (%s)" % variant,
                          bounds="1..2 named variables, one-character names over 4 letters, any identifier looked up",
                          functions=["bison actions for_variables (x2), for_iteration: _OF_ string_iterator (extracted)", "loop_vars_cleanup (grammar prologue)", "yr_parser_lookup_loop_variable", "_yr_compiler_get_var_frame"],
                          stubs=["yyerror", "yr_compiler_set_error_extra_info"]))
    return hs
