"""C11 - the scan callback protocol is exact."""
from vf.common import Harness

LEVEL = "model_checking"
TECHNIQUE = "CBMC bounded symbolic execution of scanner.c's reporting loop and exec.c's INIT_RULE/MATCH_RULE with symbolic rule flags, verdict bits and callback answers"
ASSUMPTIONS = ["<= 3 rules, 2 namespaces", "yr_execute_code stubbed in H1 (arbitrary verdict bits / error); real in H2 on the per-rule skeleton",
               "module import messages (modules.c) are checked in H3 with a one-module table"]
LEVEL_TEXT = "Bounded model checking: every flag/verdict/answer combination for 3 rules is one query over the real reporting code."
LEVEL_NOTE = "; ".join(ASSUMPTIONS)


def harnesses(ctx, tier):
    hs = [Harness(name="H1_reporting_loop", src="c11/report.c", unwind=8, timeout=600,
                    unwind_funcs={"vf_init_tables": 257},
                    desc="yr_scanner_scan_mem_blocks reporting loop: 3 rules, symbolic private/global/namespace, report flags, verdict bits, callback answers",
                    bounds="3 rules, 2 namespaces, all 4 report settings, all answer sequences",
                    functions=["yr_scanner_scan_mem_blocks", "_yr_scanner_clean_matches"], stubs=["yr_execute_code (arbitrary verdict bits)", "empty block iterator"]),
]
    for lo in range(0, 128, 16):
        hs.append(Harness(name="H2_rule_verdict_bits_pat%03d" % lo, src="c11/rules_vm.c", defines=["-DVF_PAT_LO=%d" % lo], unwind=12, timeout=900,
                          unwind_funcs={"main": 17, "yr_arena_ptr_to_ref": 3}, flags=["--max-field-sensitivity-array-size", "128", "--object-bits", "10"],
                          desc="real VM on INIT_RULE/cond/MATCH_RULE x3 (+PUSH_RULE): verdict and namespace bits for symbolic condition values and namespaces; patterns %d..%d of (required_eval x disabled x global flags)" % (lo, lo + 15),
                          bounds="3 rules, 2 namespaces, all 64-bit condition values", functions=["yr_execute_code (OP_INIT_RULE, OP_MATCH_RULE, OP_PUSH_RULE)", "jmp_if"]))
    import os
    from vf.common import HARNESS
    hs.append(Harness(name="H3_module_import_messages", src="c11/h_modules.c", includes=["-I" + os.path.join(HARNESS, "c11", "modlist")], unwind=6, timeout=600,
                      flags=["--object-bits", "10"],
                      unwind_funcs={"strcmp": 8, "strlen": 8, "yr_hash": 8, "hash": 8, "yr_hash_table_create": 6, "_yr_hash_table_lookup": 4, "strcpy": 8, "memcpy": 8,
                                    "rec:yr_object_destroy": 1, "yr_object_destroy": 2, "yr_modules_load": 3, "yr_modules_do_declarations": 3, "main": 8},
                      desc="yr_modules_load called twice for one module in one scan: message sequence, callback errors, single load",
                      bounds="1 module, all callback answers, load success/failure", functions=["yr_modules_load", "yr_modules_do_declarations", "yr_object_create", "yr_hash_table_add"],
                      stubs=["module table with one dummy module", "module declarations/load stubs"]))
    return hs
