"""C16 - allocation failure anywhere is reported, never suffered."""
import os
from vf.common import Harness, REPO

LEVEL = "model_checking"
TECHNIQUE = "CBMC bounded symbolic execution of allocation-heavy units with a nondeterministically failing allocator (one symbolic bit per allocation = every fault schedule in one query)"
ASSUMPTIONS = ["H2_regex: the MATCH instruction of the regex VM (shared with C03): a failing match callback (e.g. allocation failure while recording the match) returns every fiber to the pool",
               "unit level: arena, notebook (stopping at / continuing after the first failed allocation), stack, hash table, atom extraction, sized strings, yr_rules_from_arena + destroy, AC transition-table growth; whole-API scenarios (compile this rule with the k-th malloc failing) need the parser and are outside",
               "allocator = harness/common/mem_fail.h replacing mem.c; realloc failure leaves the old block valid (realloc(3) contract)"]
LEVEL_TEXT = "Bounded model checking over all fault schedules of each unit (every subset of its allocation sites failing), with leak accounting."
LEVEL_NOTE = "; ".join(ASSUMPTIONS)


def unit(name, n, extra=(), unwind=8, uf=None, desc="", timeout=600, flags=(), mem_gb=12, solver=None):
    return Harness(name="H1_" + name, src="c16/units.c", defines=["-DVF_UNIT=%d" % n] + list(extra), unwind=unwind, unwind_funcs=uf or {},
                   timeout=timeout, flags=list(flags), desc=desc, leak_check=True, mem_gb=mem_gb, **({"solver": solver} if solver else {}),
                   bounds="every allocation of the unit may fail independently", functions=[desc])


def gen_types(ctx_, outdir):
    """copy of types.h with the SIZED_STRING* member of union YR_VALUE declared first (CBMC models a union through its
    first member; see vf/props/c20.py and DESIGN 9.5 P37)"""
    from vf.props import c20
    return c20.gen_types(ctx_, outdir)


def _shared_c03(ctx, tier):
    """the MATCH instruction of the regex VM (C03.H1, cut from yr_re_exec): on a callback error every fiber is back in the pool"""
    from vf.props import c03
    for h in c03.harnesses(ctx, tier):
        if h.name == "H1_step_MATCH":
            h.name = "H2_regex_fibers_released_on_callback_error"
            h.desc = "when the match callback fails (allocation failure while recording a match) every fiber goes back to the pool and is released with it (shared with C03: " + h.desc + ")"
            return [h]
    return []


def _own_harnesses(ctx, tier):
    hs = [
        unit("arena", 1, uf={"memcmp": 13, "vf_fill": 13, "_yr_arena_allocate_memory": 6, "yr_arena_release": 6}, desc="arena.c: create, allocate_struct, write_data x2 (growth), make_ptr_relocatable, release"),
        unit("notebook", 2, unwind=5, mem_gb=16, desc="notebook.c: create, up to 3 allocations across pages (stop at the first failure), destroy"),
        unit("notebook_continue", 2, ["-DVF_CONTINUE_AFTER_FAILURE"], unwind=5, mem_gb=16, desc="notebook.c: create, 3 allocations across pages continuing after a failed one, destroy"),
        unit("stack", 3, desc="stack.c: create, 3 pushes with growth, pops, destroy"),
        unit("hash", 4, uf={"strlen": 4, "strcmp": 4, "hash": 4, "yr_hash": 4, "_yr_hash_table_lookup": 4, "yr_hash_table_clean": 4, "memcmp": 4}, desc="hash.c: create, add (with/without namespace), lookup, destroy"),
        unit("atoms_ascii_wide", 5, ["-DVF_FLAGS=(STRING_FLAGS_ASCII|STRING_FLAGS_WIDE)"], desc="atoms.c: yr_atoms_extract_from_string ascii|wide"),
        unit("atoms_xor", 5, ["-DVF_FLAGS=(STRING_FLAGS_ASCII|STRING_FLAGS_XOR)"], desc="atoms.c: yr_atoms_extract_from_string ascii xor(1-2)"),
        unit("object_string", 6, ["-DVF_OBJ_TYPE=OBJECT_TYPE_STRING"], uf={"strlen": 4, "rec:yr_object_destroy": 2}, desc="object.c: yr_object_create(string), yr_object_set_string x2 (replace), yr_object_destroy"),
        unit("object_integer", 6, ["-DVF_OBJ_TYPE=OBJECT_TYPE_INTEGER"], uf={"strlen": 4, "rec:yr_object_destroy": 2}, desc="object.c: yr_object_create(integer), yr_object_set_integer, yr_object_destroy"),
        # unit 9 (structure with members + yr_object_copy, units.c) is not registered: no verdict in 900 s (symbolic execution of the
        # varargs field lookup explodes)
        unit("sizedstr", 7, uf={"strlen": 4}, desc="sizedstr.c: ss_new, ss_dup"),
        unit("rules_from_arena", 8, uf={"_yr_arena_allocate_memory": 6, "yr_arena_release": 14, "yr_rules_from_arena": 3, "yr_rules_destroy": 3, "memset": 80},
             desc="rules.c: yr_rules_from_arena on a minimal well-formed arena, then yr_rules_destroy"),
        Harness(name="H1_ac_slot_growth", src="c16/ac_slot_fail.c", unwind=6, timeout=600, unwind_funcs={"_yr_arena_allocate_memory": 12, "yr_arena_release": 14}, leak_check=True,
                desc="ahocorasick.c: transition-table growth (two arena growths + bitmask realloc) with every allocation failing independently",
                bounds="slot 0..300, table of 300 entries", functions=["_yr_ac_find_suitable_transition_table_slot"], stubs=["yr_bitmask_find_non_colliding_offset -> any offset"]),
    ]
    for h in hs:
        if h.name.startswith("H1_object_"):
            h.gen = gen_types
            h.includes = ["-I@OUTDIR@", "-I" + os.path.join(REPO, "libyara", "include", "yara")]
    return hs


def harnesses(ctx, tier):
    return _own_harnesses(ctx, tier) + _shared_c03(ctx, tier)
