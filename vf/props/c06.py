"""C06 - module parsers are memory-safe on arbitrary bytes (unit level)."""
import os
from vf.common import Harness, REPO

LEVEL = "model_checking"
TECHNIQUE = ("CBMC bounded symbolic execution of module parsing units on attacker-controlled data inside an exactly-sized object "
             "(elf.c str_table_entry/is_valid_ptr; pe_utils.c pe_get_header/pe_rva_to_offset on all-symbolic buffers; dotnet.c blob / compressed-integer / string-heap readers), object tree as a checking sink, "
             "--unwinding-assertions as the termination certificate inside the bound")
ASSUMPTIONS = [
    "UNIT level only: whole module_load runs on arbitrary buffers are out of reach (DESIGN P9: one 80-byte ELF header parse 397 s / 9.5 GB, 128 bytes out of memory); "
    "the units are the string-table lookup of the ELF module, the PE header locator + RVA translation and four leaf readers of the .NET module; the PE export-table parser was probed and does not finish (DESIGN 9.7); imports, resources, rich header, version info, .NET, Mach-O, DEX, authenticode (OpenSSL) are NOT covered",
    "strnlen is modelled by the obvious loop",
    "'releases everything it allocated' is not checked here (the units allocate nothing); leaks are C16",
]
LEVEL_TEXT = "Bounded model checking of four groups of parsing units for every value of the file-controlled fields inside the bound: no access outside the data, loops terminate."
LEVEL_NOTE = "; ".join(ASSUMPTIONS)


# Probe only (not registered): pe_parse_exports on 176 data bytes (harness c06/pe_exports.c). strnlen as a loop: no verdict
# (15 GB / 30 min); strnlen as a contract stub and unwind 4: 245 s but an unwinding assertion of the export loops failed;
# unwind 6: no verdict in 15 min. Kept for a later round.
PROBE_H2 = """        Harness(name="H2_pe_parse_exports", src="c06/pe_exports.c", includes=inc, defines=["-DVF_K=%d" % K], unwind=K + 4, timeout=900, mem_gb=16,
                unwind_funcs={"main": 60},
                desc="pe.c pe_parse_exports on 176 data bytes with a symbolic export directory, symbolic tables and arbitrary RVAs",
                bounds="176 bytes, <= %d functions / names" % K,
                functions=["pe_parse_exports", "pe_get_directory_entry", "pe_rva_to_offset", "available_space"],
                stubs=["yr_object_set_integer: dropped", "yr_object_set_string: asserts the bytes lie inside the data", "strnlen: contract stub (reads both ends of the permitted range, returns any length <= n)"]),
"""


def harnesses(ctx, tier):
    K = 3 if tier == "thorough" else 2
    inc = ["-I" + os.path.join(REPO, "libyara", "modules"), "-I" + os.path.join(REPO, "libyara", "modules", "pe")]
    hs = []
    for n in (2, 64, 70, 320):
        hs.append(Harness(name="H3_pe_get_header_n%d" % n, src="c06/pe_header.c", includes=inc, defines=["-DVF_N=%d" % n], unwind=3, timeout=600, unwind_funcs={"main": n + 2},
                          desc="pe_utils.c pe_get_header on ANY buffer of exactly %d bytes: no access outside the data, an accepted header lies inside it" % n,
                          bounds="%d bytes, all symbolic" % n, functions=["pe_get_header"]))
    hs.append(Harness(name="H3_pe_rva_to_offset", src="c06/pe_header.c", includes=inc, defines=["-DVF_N=320", "-DVF_RVA=1"], unwind=3, timeout=900, mem_gb=16, unwind_funcs={"main": 322},
                      desc="pe_get_header then pe_rva_to_offset for ANY rva on ANY 320-byte buffer (<= 1 section header, placed by the symbolic SizeOfOptionalHeader): offset inside the data or -1",
                      bounds="320 bytes, all symbolic; rva any 64-bit value; NumberOfSections <= 1", functions=["pe_get_header", "pe_rva_to_offset"]))
    hs.append(Harness(name="H4_dotnet_leaf_readers", src="c06/dotnet_leaf.c", includes=inc, unwind=10, timeout=600, mem_gb=12,
                      desc="dotnet.c dotnet_parse_blob_entry / read_blob_unsigned / read_blob_signed / pe_get_dotnet_string with the cursor anywhere in (or at the end of) an 8-byte data window",
                      bounds="8 bytes all symbolic, cursor 0..8, remaining length any value <= what is left, heap size any, string index <= 64",
                      functions=["dotnet_parse_blob_entry", "read_blob_unsigned", "read_blob_signed", "pe_get_dotnet_string"], stubs=["memmem: loop model for a 1-byte needle"]))
    return hs + [
        Harness(name="H1_elf_str_table_entry", src="c06/elf_strtab.c", includes=inc, unwind=10, timeout=300,
                desc="elf.c str_table_entry + is_valid_ptr on an arbitrary (possibly empty / inverted / ending at the end of the data) table window and index",
                bounds="8-byte object, base/limit anywhere in it, index any int", functions=["str_table_entry", "is_valid_ptr"], stubs=["strnlen: loop model"]),
    ]
