"""C03 - regular-expression strings agree with regex semantics (per-instruction level)."""
import os, re
from vf.common import Harness, REPO

LEVEL = "model_checking"
TECHNIQUE = ("CBMC bounded symbolic execution of the regex VM one instruction at a time from an arbitrary reachable state: the opcode dispatch of "
             "re.c yr_re_exec (cut mechanically out of the function each run, like the bison actions) for every matching/anchor opcode, "
             "the verdict handling (`switch (action)`: kill / kill-tail / continue / next), _yr_re_fiber_sync for the split and jump instructions, _yr_re_fiber_exists; reference = regex semantics of the single instruction")
ASSUMPTIONS = [
    "whole-program symbolic execution of yr_re_exec is intractable (DESIGN P7/P11); the claim is PER INSTRUCTION: every opcode is exact from any state "
    "satisfying the stated loop invariant (0 <= bytes_matched <= max_bytes_matched, multiple of the character size, input = start + k*step); "
    "the composition (any program is then exact) is argued, not solved",
    "regex text -> AST -> code (re_lexer.l, re_grammar.y, _yr_re_emit) and atom choice for regexps are outside; `matches` is covered only in so far as it runs the same instructions",
    "data window <= 8 bytes around the match start, YR_RE_SCAN_LIMIT scaled to 6 through its own #ifndef so that the per-match window bound binds; RE_MAX_STACK=4, RE_MAX_SPLIT_ID=8",
    "the switch body and the prologue of yr_re_exec are cut by text markers (`switch (*ip)` ... matching brace; `if (flags & RE_FLAGS_WIDE)` ... `bytes_matched = 0;`); a refactoring that removes the markers makes the check exit 2 (broken), not 1",
    "the control side of counted repeats (REPEAT_START/END/ANY in _yr_re_fiber_sync: no verdict in 300 s) and the empty-loop cut of a split re-entering itself are NOT decided; "
    "the matching side of REPEAT_ANY is (H1)",
    "backwards execution is only entered with at least one byte to the right of the start (the atom occurrence), as scan.c does",
]
LEVEL_TEXT = ("Bounded model checking of one VM instruction from an arbitrary state (inductive step): byte predicates, anchors, word boundaries, "
              "window bound and wide/backwards/nocase/dotall handling of every matching opcode, what the loop does with each verdict (which fiber is examined next, who leaves the list); successor sets and priority order of splits and jumps; fiber de-duplication.")
LEVEL_NOTE = "; ".join(ASSUMPTIONS)


def _match_brace(t, j):
    depth, k = 0, j
    while True:
        if t[k] == "{":
            depth += 1
        elif t[k] == "}":
            depth -= 1
            if depth == 0:
                return k
        k += 1


def gen_step(ctx, outdir):
    t = open(os.path.join(REPO, "libyara", "re.c"), errors="replace").read()
    m = re.search(r"^int yr_re_exec\(", t, re.M)
    if not m:
        raise RuntimeError("yr_re_exec not found in re.c")
    body0 = t.index("{", t.index(")", m.start()))
    body1 = _match_brace(t, body0)
    fn = t[body0:body1 + 1]
    a = fn.find("if (flags & RE_FLAGS_WIDE)")
    b = fn.find("bytes_matched = 0;")
    s = fn.find("switch (*ip)")
    if a < 0 or b < a or s < b:
        raise RuntimeError("markers of yr_re_exec not found (prologue / switch)")
    prologue = fn[a:b + len("bytes_matched = 0;")]
    sw0 = fn.index("{", s)
    sw1 = _match_brace(fn, sw0)
    switch = fn[s:sw1 + 1]
    tail = fn[sw1 + 1:]
    # loop tail (informational check that the invariant the harness states is the one the loop maintains)
    if "input += input_incr;" not in tail or "bytes_matched += character_size;" not in tail:
        raise RuntimeError("loop tail of yr_re_exec changed: the harness invariant no longer describes it")
    a2 = tail.find("switch (action)")
    if a2 < 0:
        raise RuntimeError("`switch (action)` of yr_re_exec not found")
    as0 = tail.index("{", a2)
    as1 = _match_brace(tail, as0)
    action_switch = tail[a2:as1 + 1]
    with open(os.path.join(outdir, "re_step.h"), "w") as f:
        f.write("/* cut from libyara/re.c yr_re_exec by vf/props/c03.py - regenerated on every run */\n")
        f.write("static void vf_re_prologue(const uint8_t* input_data, size_t input_forwards_size, size_t input_backwards_size, int flags,\n"
                "  const uint8_t** input_p, int* input_incr_p, uint8_t* character_size_p, int* max_bytes_matched_p, int* bytes_matched_p)\n{\n"
                "  const uint8_t* input; uint8_t character_size; int bytes_matched; int max_bytes_matched; int input_incr;\n")
        f.write("  " + prologue + "\n")
        f.write("  *input_p = input; *input_incr_p = input_incr; *character_size_p = character_size; *max_bytes_matched_p = max_bytes_matched; *bytes_matched_p = bytes_matched;\n}\n\n")
        f.write("static int vf_re_step(YR_SCAN_CONTEXT* context, RE_FIBER_LIST* vf_fibers_p, RE_FIBER* fiber, const uint8_t* input, const uint8_t* input_data,\n"
                "  size_t input_forwards_size, size_t input_backwards_size, int flags, RE_MATCH_CALLBACK_FUNC callback, void* callback_args, int* matches,\n"
                "  uint8_t character_size, int input_incr, int bytes_matched, int max_bytes_matched, int* action_p)\n{\n"
                "#define fibers (*vf_fibers_p)\n"
                "  const uint8_t* ip; uint16_t opcode_args; uint8_t mask; uint8_t value; int match; int kill; int action;\n"
                "  bool prev_is_word_char = false; bool input_is_word_char = false;\n"
                "  ip = fiber->ip;\n  action = ACTION_NONE;\n")
        f.write("  " + switch + "\n")
        f.write("  *action_p = action;\n  return ERROR_SUCCESS;\n#undef fibers\n}\n")
        f.write("\n/* what yr_re_exec does with the instruction's verdict */\n"
                "static int vf_re_action(YR_SCAN_CONTEXT* context, RE_FIBER_LIST* vf_fibers_p, RE_FIBER** vf_fiber_p, int action)\n{\n"
                "#define fibers (*vf_fibers_p)\n  RE_FIBER* fiber = *vf_fiber_p;\n  RE_FIBER* next_fiber;\n")
        f.write("  " + action_switch + "\n")
        f.write("  *vf_fiber_p = fiber;\n  return ERROR_SUCCESS;\n#undef fibers\n}\n")


CONSUMING = ["ANY", "REPEAT_ANY_GREEDY", "REPEAT_ANY_UNGREEDY", "LITERAL", "NOT_LITERAL", "MASKED_LITERAL", "MASKED_NOT_LITERAL", "CLASS",
             "WORD_CHAR", "NON_WORD_CHAR", "SPACE", "NON_SPACE", "DIGIT", "NON_DIGIT"]
ZEROW = ["WORD_BOUNDARY", "NON_WORD_BOUNDARY", "MATCH_AT_START", "MATCH_AT_END", "MATCH"]
# the counted-repeat control instructions (REPEAT_START/END/ANY in _yr_re_fiber_sync) and a split re-entering itself give no verdict in
# 300 s even with concrete targets and stack depth; the harness (c03/re_sync.c) contains their reference semantics but they are not registered
CONTROL = ["SPLIT_A", "SPLIT_B", "JUMP"]
SCALE = ["-D__NO_CTYPE=1", "-DYR_RE_SCAN_LIMIT=6", "-DRE_MAX_STACK=4", "-DRE_MAX_SPLIT_ID=8", "-DRE_MAX_FIBERS=8"]


def harnesses(ctx, tier):
    hs = []
    T = 8 if tier == "thorough" else 6
    for op in CONSUMING + ZEROW:
        hs.append(Harness(name="H1_step_" + op, src="c03/re_step.c", gen=gen_step, defines=SCALE + ["-DVF_OP=RE_OPCODE_" + op, "-DVF_T=%d" % T],
                          unwind=4, timeout=600, mem_gb=12, unwind_funcs={"vf_init_tables": 257, "vf_fill": 40},
                          desc="one execution of RE_OPCODE_%s as yr_re_exec dispatches it, from an arbitrary state of the matching loop" % op,
                          bounds="data window %d bytes, any start position, any k = bytes already matched, flags wide/backwards/nocase/dotall/exhaustive symbolic, instruction arguments symbolic" % T,
                          functions=["yr_re_exec (prologue + opcode switch, cut)", "_yr_re_is_char_in_class", "_yr_re_is_word_char"],
                          stubs=["match callback: records its arguments, returns a symbolic error code", "yr_lowercase/yr_altercase filled as yr_initialize does"]))
    for op in CONTROL:
        tgts = [8, 3, 14] if op.startswith("SPLIT") else [3, 14] if op == "JUMP" else [20, 2] if "START" in op else [2, 20] if "END" in op else [0]
        for tg in tgts:
            if tg == 8:
                continue  # split re-entering itself: no verdict in 300 s (see DESIGN 9.2)
            extra = ["-DVF_SP=1"] if "REPEAT" in op else []
            hs.append(Harness(name="H2_sync_%s_t%d" % (op, tg), src="c03/re_sync.c", defines=SCALE + extra + ["-DVF_OP=RE_OPCODE_" + op, "-DVF_OP_" + op + "=1", "-DVF_TGT=%d" % tg, "-DVF_NEIGH=3"],
                              unwind=6, timeout=300, mem_gb=12, unwind_funcs={"fill_code": 34, "rec:_yr_re_fiber_sync": 2},
                              desc="_yr_re_fiber_sync on a fiber standing at RE_OPCODE_%s (target offset %d): successor fibers, their order in the list (priority), stacks, repeat counters, pool accounting" % (op, tg),
                              bounds="fiber stack depth <= 3, repeat min/max <= 3..4 symbolic, optional neighbour fibers before/after, jump/split target enumerated",
                              functions=["_yr_re_fiber_sync", "_yr_re_fiber_split", "_yr_re_fiber_kill", "_yr_re_fiber_create"],
                              stubs=["fiber pool pre-populated from a static array"]))
    for act in ("ACTION_NONE", "ACTION_CONTINUE", "ACTION_KILL", "ACTION_KILL_TAIL"):
        for nxt in ("ANY", "SPLIT_A"):
            hs.append(Harness(name="H4_action_%s_next_%s" % (act[7:], nxt), src="c03/re_action.c", gen=gen_step,
                              defines=SCALE + ["-DVF_ACTION=" + act, "-DVF_NEXT_%s=1" % nxt], unwind=7, timeout=300, unwind_funcs={"fill_code": 34, "rec:_yr_re_fiber_sync": 2},
                              desc="what yr_re_exec does with an instruction's verdict %s when the fiber's next instruction is %s: which fiber is examined next, list order, pool accounting" % (act, nxt),
                              bounds="list [A, F, B]; fiber state symbolic (stack depth <= 3)", functions=["yr_re_exec (`switch (action)`, cut)", "_yr_re_fiber_sync", "_yr_re_fiber_kill", "_yr_re_fiber_kill_tail"]))
    hs.append(Harness(name="H3_fiber_exists", src="c03/re_exists.c", defines=SCALE, unwind=6, timeout=300,
                      desc="_yr_re_fiber_exists: a fiber is a duplicate iff an EARLIER fiber (up to `last`) has the same ip, sp, rc and live stack slots",
                      bounds="3 fibers, stack depth <= 3", functions=["_yr_re_fiber_exists"]))
    return hs
