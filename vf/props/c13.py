"""C13 - all scan entry points agree, also across interrupted block iteration."""
import os
from vf.common import Harness, dump_image

LEVEL = "model_checking"
TECHNIQUE = "CBMC 2-safety harness over the real whole scan (scanner.c/scan.c/exec.c on a compiled image): uninterrupted run vs run with a nondeterministic not-ready schedule"
ASSUMPTIONS = ["data <= 5 bytes, 1..3 contiguous blocks at symbolic cut points, <= 3 not-ready answers",
               "the rule is evaluated unconditionally (no_required_strings bit set by the harness) so that the VM's ip stays concrete",
               "file / fd / process entry points are I/O and outside; yr_scanner_scan_mem's single-block iterator is checked in H2"]
LEVEL_TEXT = "Bounded model checking of run equivalence (2-safety) for every buffer, block partition and not-ready schedule in the bound."
LEVEL_NOTE = "; ".join(ASSUMPTIONS)


def nr_h(name, cond, N, nstr_rule='$a = "ab"'):
    rule = "rule r { strings: %s condition: %s }\n" % (nstr_rule, cond)

    def gen(ctx, outdir):
        dump_image(ctx, outdir, "IMG_", rule, fname="img_img.h")
    return Harness(name="H1_notready_" + name, src="c13/notready.c", defines=["-DVF_N=%d" % N], unwind=N + 3, gen=gen, timeout=1200,
                   unwind_funcs={"vf_init_tables": 257, "yr_execute_code": 16, "main": 6, "vf_trace_eq": 9, "yr_arena_ptr_to_ref": 4, "memcmp": 9},
                   flags=["--object-bits", "10"],
                   desc="whole scan, uninterrupted vs not-ready schedule, rule: " + rule.strip(),
                   bounds="data <= %d bytes, <= 3 blocks, <= 3 not-ready answers" % N,
                   functions=["yr_scanner_scan_mem_blocks", "_yr_scanner_scan_mem_block", "yr_scan_verify_match", "yr_execute_code", "_yr_scanner_clean_matches"],
                   stubs=["notebook->malloc", "config", "clock", "yr_modules_unload_all"])


def harnesses(ctx, tier):
    N = 5
    hs = [nr_h("found", "$a", N), nr_h("count", "#a == 2", N)]
    if tier == "thorough":
        hs += [nr_h("offset", "@a[1] == 2", N), nr_h("uint8", "$a and uint8(1) == 0x62", N)]
    return hs
