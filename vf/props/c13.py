"""C13 - all scan entry points agree, also across interrupted block iteration."""
import os
from vf.common import Harness, dump_image

LEVEL = "model_checking"
TECHNIQUE = "CBMC 2-safety harness over the real whole scan (scanner.c/scan.c/exec.c on a compiled image): uninterrupted run vs run interrupted by not-ready answers, data and block partition symbolic"
ASSUMPTIONS = ["data <= 4 bytes (5 thorough), 1..3 contiguous blocks at symbolic cut points; the number of blocks and the not-ready schedule (which iterator calls answer not-ready) are enumerated at harness level",
               "the rule is evaluated unconditionally (no_required_strings bit set by the harness) so that the VM's ip stays concrete",
               "file / fd / process entry points are I/O and outside; they reach the same yr_scanner_scan_mem_blocks"]
LEVEL_TEXT = "Bounded model checking of run equivalence (2-safety) for every buffer and block partition in the bound, per enumerated not-ready schedule."
LEVEL_NOTE = "; ".join(ASSUMPTIONS)


def popcount(x):
    return bin(x).count("1")


def nr_h(name, cond, N, nblocks, sched, nstr_rule='$a = "ab"'):
    rule = "rule r { strings: %s condition: %s }\n" % (nstr_rule, cond)

    def gen(ctx, outdir):
        dump_image(ctx, outdir, "IMG_", rule, fname="img_img.h")
    return Harness(name="H1_notready_%s_b%d_s%02x" % (name, nblocks, sched), src="c13/notready.c",
                   defines=["-DVF_N=%d" % N, "-DVF_NBLOCKS_C=%d" % nblocks, "-DVF_SCHED=0x%x" % sched, "-DVF_MAX_NOTREADY=%d" % popcount(sched)],
                   unwind=N + 3, gen=gen, timeout=3000,
                   unwind_funcs={"vf_init_tables": 257, "yr_execute_code": 16, "main": 6, "vf_trace_eq": 9, "yr_arena_ptr_to_ref": 4, "memcmp": 9},
                   flags=["--object-bits", "10"],
                   desc="whole scan, uninterrupted vs not-ready at iterator calls %s, %d block(s), rule: %s" % ([k for k in range(8) if (sched >> k) & 1], nblocks, rule.strip()),
                   bounds="data <= %d bytes (bytes, length, cut points symbolic); block count and schedule enumerated" % N,
                   functions=["yr_scanner_scan_mem_blocks", "_yr_scanner_scan_mem_block", "yr_scan_verify_match", "yr_execute_code", "_yr_scanner_clean_matches"],
                   stubs=["notebook->malloc", "config", "clock", "yr_modules_unload_all", "TLS"])


def schedules(nblocks, max_nr):
    calls = nblocks + max_nr
    return [s for s in range(1, 1 << calls) if popcount(s) <= max_nr]


def harnesses(ctx, tier):
    hs = []
    if tier == "quick":
        # (blocks, schedule, N): a not-ready answer BETWEEN two blocks (schedule 0x2) resumes on a heap of symbolic
        # match lists and does not finish in 1500 s even on 3 bytes: that shape is covered by the inductive step H2
        combos = [(1, 0x1, 4), (2, 0x1, 4), (2, 0x3, 4)]
    else:
        combos = [(1, 0x1, 4), (1, 0x3, 4), (2, 0x1, 4), (2, 0x3, 4), (3, 0x1, 4)]
    for nb, s, N in combos:
        hs.append(nr_h("found", "$a", N, nb, s))
    if tier == "thorough":
        hs.append(nr_h("count", "#a == 2", 4, 2, 0x1))
    # the re-iteration of the blocks done by rule evaluation (intN/uintN readers): every entry point hands the same bytes to
    # these functions; they must depend on nothing but the block contents (no read outside a block, whatever its size)
    for fn, sz, signed, be in (("read_uint8_t_little_endian", 1, 0, 0), ("read_uint16_t_little_endian", 2, 0, 0), ("read_uint32_t_big_endian", 4, 0, 1), ("read_int32_t_little_endian", 4, 1, 0)):
        hs.append(Harness(name="H3_" + fn, src="c04/readers.c", defines=["-DVF_READER=" + fn, "-DVF_SIZE=%d" % sz, "-DVF_SIGNED=%d" % signed, "-DVF_BE=%d" % be],
                          unwind=6, timeout=300, desc="%s on a symbolic 2-block layout (blocks of 0..4 bytes, shorter than the integer included)" % fn,
                          bounds="2 blocks x <= 4 bytes, base 0..3, gap 0..2, offset any size_t", functions=[fn]))
    hs.append(Harness(name="H2_reentry_preserves_state", src="c13/reentry.c", unwind=6, timeout=300, unwind_funcs={"vf_init_tables": 257, "memcmp": 400},
                      desc="re-entering yr_scanner_scan_mem_blocks on an ARBITRARY suspended scanner state with a still-not-ready iterator: state bitwise unchanged, `next` called once, nothing reported",
                      bounds="arbitrary bitmaps, match-list heads, entry point, file size; 1 rule, 1 string",
                      functions=["yr_scanner_scan_mem_blocks (re-entry and suspended-exit paths)"], stubs=["yr_execute_code counter", "iterator always not-ready"]))
    return hs
