"""C15 - exceeding engine limits yields the documented error, not a crash or hang."""
import os
from vf.common import Harness, dump_image

LEVEL = "model_checking"
TECHNIQUE = "CBMC bounded symbolic execution of exec.c / scan.c / scanner.c with engine limits scaled down through the code's own #ifndef macros and configuration stubs; symbolic clock"
ASSUMPTIONS = ["limits scaled: YR_MAX_STRING_MATCHES=3 (native image build and harness identically), stack size 1..6 via the configuration stub",
               "the isolation of OTHER strings from a muted one needs a multi-string image, whose symbolic string pointer makes the query run out of memory at 24 GB (probe in DESIGN section 4): claimed only through C05", "timeout claim is in instructions (poll every 100 VM instructions / 4096 scanned bytes), not in seconds; programs: NOPs, and 88 NOPs followed by any subset of 4 module-function calls (hash-table lookup and object copy/destroy stubbed)",
               "compile-side limits (loop nesting, strings per rule, include depth, identifier length) live in flex/bison actions and are outside this round"]
LEVEL_TEXT = "Bounded model checking at L-1, L, L+1 of each scaled limit with all other inputs symbolic."
LEVEL_NOTE = "; ".join(ASSUMPTIONS)

SCALE = ["-DYR_MAX_STRING_MATCHES=3", "-DYR_SLOW_STRING_MATCHES=100"]


def harnesses(ctx, tier):
    N = 7 if tier == "thorough" else 6

    def gen(ctx_, outdir):
        dump_image(ctx_, outdir, "IMG_", 'rule r { strings: $a = "a" condition: $a }\n', scale_defs=SCALE, fname="img_img.h")
    return [
        Harness(name="H4_limit_state_cleared_at_exit", src="c11/report.c", unwind=8, timeout=600, unwind_funcs={"vf_init_tables": 257},
                desc="after a scan in which strings were muted by the matches-per-string limit (arbitrary disabled-string bits, 70 strings), every exit of yr_scanner_scan_mem_blocks clears that state: the library remains usable and later scans are not silently changed",
                bounds="70 strings / 3 rules; all exits (errors, abort, callback error)", functions=["yr_scanner_scan_mem_blocks", "_yr_scanner_clean_matches"]),
        Harness(name="H1_vm_stack_limit", src="c15/vm_limits.c", defines=["-DVF_MODE=1"], unwind=12, timeout=600,
                flags=["--max-field-sensitivity-array-size", "256"], unwind_funcs={"yr_arena_ptr_to_ref": 3},
                desc="VM evaluation stack at capacity L in 1..6 with a program needing 4 slots", bounds="L in 1..6, all pushed values",
                functions=["yr_execute_code (push/pop, overflow path, epilogue)"]),
        Harness(name="H2_vm_timeout", src="c15/vm_limits.c", defines=["-DVF_MODE=2"], unwind=130, timeout=900,
                flags=["--max-field-sensitivity-array-size", "256"], unwind_funcs={"yr_arena_ptr_to_ref": 3, "main": 122},
                desc="VM timeout poll with symbolic clock and timeout on a 120-NOP program", bounds="all 64-bit clock / timeout values",
                functions=["yr_execute_code (timeout poll)"], stubs=["yr_stopwatch_elapsed_ns -> symbolic"]),
        Harness(name="H2_vm_timeout_with_calls", src="c15/vm_limits.c", defines=["-DVF_MODE=3", "-DVF_CODE_MAX=250"], unwind=130, timeout=900,
                flags=["--max-field-sensitivity-array-size", "256"], unwind_funcs={"yr_arena_ptr_to_ref": 3, "main": 90, "strcmp": 3, "strlen": 3, "_yr_arena_allocate_memory": 3, "yr_arena_release": 3},
                desc="VM timeout poll with module function calls in the program (88 NOPs, then any subset of 4 calls made around the 100th instruction)", bounds="4 call slots, all clock / timeout values",
                functions=["yr_execute_code (OP_OBJ_LOAD, OP_CALL, timeout poll, epilogue)"], stubs=["yr_stopwatch_elapsed_ns -> symbolic", "yr_hash_table_lookup -> the function object", "yr_object_copy / yr_object_destroy -> counters"]),
        Harness(name="H3_max_matches_per_string", src="c15/matches.c", defines=["-DVF_N=%d" % N] + SCALE, gen=gen, unwind=N + 2, timeout=900, mem_gb=24,
                unwind_funcs={"vf_init_tables": 257},
                desc="matches-per-string limit (scaled to 3): warning callback, muting, isolation of the other string, error on abort",
                bounds="all buffers <= %d bytes, all three callback answers" % N,
                functions=["_yr_scanner_scan_mem_block", "yr_scan_verify_match", "_yr_scan_add_match_to_list"]),
    ]
