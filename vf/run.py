#!/usr/bin/env python3
"""entry point: run.py <Cxx> [--tier quick|thorough]

exit 0: property held on everything explored (KNOWN-FINDING lines allowed)
exit 1: VIOLATION property=<id> replay=<path> printed (replayed natively)
exit 2: the check itself is broken or inconclusive (never a VIOLATION line)
"""
import argparse, importlib, os, sys

sys.path.insert(0, os.path.dirname(os.path.dirname(os.path.abspath(__file__))))
from vf import common


def main():
    ap = argparse.ArgumentParser()
    ap.add_argument("pid")
    ap.add_argument("--tier", default=os.environ.get("VERIF_TIER", "quick"), choices=["quick", "thorough"])
    a = ap.parse_args()
    seed = int(os.environ.get("VERIF_SEED", "0") or 0)
    pid = a.pid.upper()
    mod = importlib.import_module("vf.props." + pid.lower())
    ctx = common.Ctx(pid, a.tier, seed)
    common.run_property.ctx = ctx
    try:
        hs = mod.harnesses(ctx, a.tier)
        rc = common.run_property(pid, hs, a.tier, seed,
                                 level=getattr(mod, "LEVEL", "model_checking"),
                                 assumptions=getattr(mod, "ASSUMPTIONS", []),
                                 explanation=getattr(mod, "EXPLANATION", ""),
                                 technique=getattr(mod, "TECHNIQUE", ""))
    finally:
        ctx.scratch.cleanup()
    sys.exit(rc)


if __name__ == "__main__":
    main()
