#!/usr/bin/env python3
"""Regenerates /verif/MANIFEST.json from the property modules under vf/props (claimed) and
vf/not_applicable.json (not claimed).  Run after adding/removing a property module."""
import importlib, json, os, sys
sys.path.insert(0, os.path.dirname(os.path.dirname(os.path.abspath(__file__))))
VERIF = os.path.dirname(os.path.dirname(os.path.abspath(__file__)))

ALL = ["C%02d" % i for i in range(1, 21)]
checks, na = [], []
na_reasons = json.load(open(os.path.join(VERIF, "vf", "not_applicable.json")))
for pid in ALL:
    modpath = os.path.join(VERIF, "vf", "props", pid.lower() + ".py")
    if not os.path.exists(modpath) or pid in na_reasons:
        na.append({"property_id": pid, "reason": na_reasons.get(pid, "no solver-based check built for this property (see DESIGN.md section 5.%s)" % pid)})
        continue
    m = importlib.import_module("vf.props." + pid.lower())
    checks.append({
        "property_id": pid,
        "quick_cmd": "python3 vf/run.py %s --tier quick" % pid,
        "thorough_cmd": "python3 vf/run.py %s --tier thorough" % pid,
        "evidence_file": "evidence/%s.json" % pid,
        "replay_cmd_template": "sh -c \"sed -n 2p {path}\"   # line 2 of the replay file is its build+run command",
        "engine": "cbmc",
        "level_claimed": {"category": getattr(m, "LEVEL", "model_checking"),
                          "text": getattr(m, "LEVEL_TEXT", ""),
                          "design_ref": "DESIGN.md section 5." + pid},
        "level_note": getattr(m, "LEVEL_NOTE", "; ".join(getattr(m, "ASSUMPTIONS", []))),
        "technique": getattr(m, "TECHNIQUE", "CBMC bounded symbolic execution of the real C sources"),
    })
man = {
    "version": 1,
    "setup_cmd": "python3 vf/setup_check.py",
    "hooks": {
        "guard": "YARA_VERIF",
        "enable": "harness translation units and the scratch native build are compiled with -DYARA_VERIF=1 (vf/common.py repo_defines); /repo's own build is never touched",
        "baseline_off_cmd": "make -C /repo -j8 && make -C /repo check",
        "source_commits": json.load(open(os.path.join(VERIF, "vf", "hook_commits.json"))),
        "add_only": True,
    },
    "engines": [{"name": "cbmc", "path": "vf/common.py", "serves_properties": [c["property_id"] for c in checks],
                 "kind_free_text": "goto-cc + cbmc 6.11 (SAT: cadical/minisat, SMT: z3) over harness TUs that textually include the real /repo sources; counterexamples replayed natively under ASan/UBSan"}],
    "checks": checks,
    "not_applicable": na,
    "notes": "See DESIGN.md. exit 0 = held (KNOWN-FINDING lines allowed), exit 1 = VIOLATION replayed natively, exit 2 = check broken/inconclusive (never printed as VIOLATION).",
}
json.dump(man, open(os.path.join(VERIF, "MANIFEST.json"), "w"), indent=1)
print("claimed:", [c["property_id"] for c in checks])
print("not_applicable:", [n["property_id"] for n in na])
